#!/bin/sh
# Builds the framework offline from files on disk: the rustc_private driver (nightly), the
# stable grammar/regex tools, and warms the dependency artefacts of /repo for the driver.
set -e
cd "$(dirname "$0")"
export CARGO_NET_OFFLINE=true
(cd tools/mirfacts && cargo build --release --offline)
(cd tools/stable && cargo build --release --offline)
python3 -m sa.build /repo >/dev/null || true
echo "setup ok"
