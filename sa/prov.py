"""Flow-insensitive, field-insensitive provenance inside one body.

origins(x) answers "which sources can the value in x be built from?", following copies,
moves, references, dereferences, projections, casts, aggregates, and calls in the
pass-through table (functions that hand their argument's value on: clone, as_str, deref,
poll of an awaited future, iterator adapters ...).  Sources are:

  ("const", cdict)        a constant (cdict has 'int' / 'str' / 'fn' / 'text')
  ("param", k)            k-th argument of the body (1-based local index)
  ("upvar", name|idx)     captured variable of a closure / coroutine body
  ("call", Call)          result of a call that is not pass-through
  ("bin", op, stmt)       result of arithmetic / comparison
  ("un", op, stmt)
  ("discr", stmt)
  ("resume",)             coroutine resume argument / yield value
  ("unknown", text)

This is a may-analysis: the result is an over-approximation of the real sources.
"""
import re
from .facts import op_place, op_const

# callee-name regexes whose result carries the value of (some of) their arguments
PASS_THROUGH = [
    r"::clone$", r"::to_owned$", r"::to_string$", r"^<.* as std::string::ToString>::to_string",
    r"::as_str$", r"::as_bytes$", r"::as_ref$", r"::as_mut$", r"::as_slice$", r"::as_mut_str$",
    r"::deref$", r"::deref_mut$", r"::borrow$", r"::borrow_mut$",
    r"::into$", r"::from$", r"::into_future$", r"::into_iter$", r"::iter$", r"::iter_mut$",
    r"::next$", r"::rev$", r"::copied$", r"::cloned$", r"::enumerate$", r"::peekable$", r"::by_ref$",
    r"::filter$", r"::filter_map$", r"::skip$", r"::take$", r"::chain$", r"::last$", r"::first$",
    r"::lines$", r"::chars$", r"::trim$", r"::trim_start$", r"::trim_end$",
    r"Pin::<.*>::new_unchecked$", r"Pin::<.*>::new$", r"::get_mut$", r"::get_unchecked_mut$",
    r"::poll$", r"::unwrap$", r"::expect$", r"::unwrap_or$", r"::unwrap_or_default$", r"::ok$", r"::err$",
    r"::branch$", r"::from_residual$", r"::from_output$", r"Option::<.*>::Some$", r"::as_deref$",
    r"Arc::<.*>::new$", r"Box::<.*>::new$", r"Box::<.*>::pin$", r"::pin$",
    r"::load$", r"::index$", r"::index_mut$", r"::get$", r"::to_str$", r"::to_path_buf$", r"::to_vec$",
    r"Path::new", r"::join$", r"::parent$", r"::as_path$", r"::as_os_str$", r"::path$", r"::into_path$",
    r"::as_span$", r"::into_inner$", r"::start_pos$", r"::end_pos$", r"::last_mut$", r"::as_rule$",
    r"core::fmt::rt::Argument::<'_>::new_", r"::to_lowercase$", r"::to_uppercase$", r"::to_ascii_lowercase$",
    r"String as std::str::FromStr>::from_str$", r"::map_or$", r"::map$", r"::and_then$", r"::ok_or$", r"::unwrap_or_else$", r"::collect$", r"PathBuf::from$", r"::map_err$", r"::then_some$",
]
_PT = [re.compile(p) for p in PASS_THROUGH]

# calls that write (some of) their later arguments into the value behind their first argument
MUTATORS = [r"::push$", r"::push_str$", r"::insert$", r"::insert_str$", r"::extend$", r"::append$",
            r"::extend_from_slice$", r"::store$", r"::replace$", r"::set_extension$"]
_MU = [re.compile(p) for p in MUTATORS]


def is_pass_through(call, extra=()):
    for n in call.names():
        for r in _PT:
            if r.search(n):
                return True
        for r in extra:
            if re.search(r, n):
                return True
    # poll of an async fn body: `path::{closure#0}(pin, cx)`
    nm = call.name
    if re.search(r"::\{closure#\d+\}$", nm) and len(call.args) == 2:
        return "poll_body"
    return False


class Prov:
    def __init__(self, body, extra_pass=(), stop_at=(), interproc=False, _depth=0):
        """extra_pass: more pass-through regexes; stop_at: regexes of calls that are always
        sources even if the table says pass-through."""
        self.body = body
        self.extra = tuple(extra_pass)
        self.stop_at = tuple(stop_at)
        self._memo = {}
        self._mut = None
        self._alias = {}
        self.interproc = interproc
        self._depth = _depth

    # --- aliasing: which locals may a reference-local point into -------------------
    def bases(self, l, _seen=None):
        """Locals whose storage `l` may refer to (through & / copies of refs / pass-through)."""
        if l in self._alias:
            return self._alias[l]
        _seen = _seen or set()
        if l in _seen:
            return {l}
        _seen.add(l)
        out = {l}
        for (bb, kind, d) in self.body.defs.get(l, []):
            if kind == "assign":
                rv = d["rv"]
                k = rv["k"]
                if k in ("ref", "rawptr"):
                    out |= self.bases(rv["place"]["l"], _seen)
                elif k == "use" or k == "cast":
                    p = op_place(rv["op"])
                    if p is not None:
                        out |= self.bases(p["l"], _seen)
            else:
                if is_pass_through(d, self.extra):
                    for a in d.args[:1]:
                        p = op_place(a)
                        if p is not None:
                            out |= self.bases(p["l"], _seen)
        self._alias[l] = out
        return out

    def _mutations(self):
        if self._mut is None:
            m = {}
            for c in self.body.calls:
                if not c.local and any(r.search(n) for n in c.names() for r in _MU) and len(c.args) >= 2:
                    p = op_place(c.args[0])
                    if p is None:
                        continue
                    for b in self.bases(p["l"]):
                        m.setdefault(b, []).append(c)
            self._mut = m
        return self._mut

    # --- origins ---------------------------------------------------------------------
    def origins_op(self, op):
        c = op_const(op)
        if c is not None:
            if c.get("unevaluated") and "int" not in c and "str" not in c and self._depth < 3:
                # a named `const X: T = ..` of this crate: what its initialiser is built from
                cb = self.body.facts.by_id.get(c["unevaluated"])
                if cb is not None and cb.id != self.body.id and cb.kind.startswith(("Const", "AssocConst", "Static")):
                    return Prov(cb, self.extra, self.stop_at, self.interproc, _depth=self._depth + 1).origins(0)
            return {("const", _freeze(c))}
        p = op_place(op)
        if p is None:
            return {("unknown", str(op))}
        return self.origins_place(p)

    def origins_place(self, p):
        l = p["l"]
        b = self.body
        # closure / coroutine environment: _1 (.deref)* .field k
        if b.kind.startswith(("closure", "coroutine")) and l == 1:
            for e in p["p"]:
                if isinstance(e, dict) and "f" in e:
                    return {("upvar", self._upvar_name(e["f"]))}
            return {("upvar", "<env>")}
        steps, complete = self._steps(p)
        if steps:
            r = self._origins_sel(l, steps, 0, frozenset())
            if r:
                return r
        return self.origins(l)

    # --- projection-sensitive origins: `(x as Variant).k` / `x.k` (any depth) look only at what
    # was stored into that variant payload / field -------------------------------------------
    @staticmethod
    def _steps(p):
        """(steps, complete): the leading field / variant-field projections of a place; complete is
        False when an element that is not understood (index, subslice ...) cut the list short"""
        elems = [e for e in p["p"] if e != "*"]
        steps = []
        i = 0
        while i < len(elems):
            e = elems[i]
            if isinstance(e, dict) and "downcast" in e and i + 1 < len(elems) and isinstance(elems[i + 1], dict) and "f" in elems[i + 1]:
                steps.append(("variant", e["downcast"], elems[i + 1]["f"]))
                i += 2
            elif isinstance(e, dict) and "f" in e and "downcast" not in e:
                steps.append(("field", e["f"]))
                i += 1
            else:
                return tuple(steps), False
        return tuple(steps), True

    def _is_env(self, q):
        return self.body.kind.startswith(("closure", "coroutine")) and q["l"] == 1

    def _op_sel(self, op, rest, depth, seen):
        """origins of operand `op` projected by the steps `rest`"""
        q = op_place(op)
        if q is None or not rest:
            return self.origins_op(op)
        return self._place_sel(q, rest, depth, seen)

    def _place_sel(self, q, rest, depth, seen):
        if self._is_env(q):
            return self.origins_place(q)
        qs, complete = self._steps(q)
        if not complete:
            return self.origins_place(q)
        r = self._origins_sel(q["l"], qs + tuple(rest), depth + 1, seen)
        return r if r else self.origins(q["l"])

    def _origins_sel(self, l, steps, depth, seen):
        if not steps:
            return self.origins(l)
        if depth > 8 or (l, steps) in seen:
            return None
        seen = seen | {(l, steps)}
        b = self.body
        out = set()
        if 1 <= l <= b.arg_count and not b.defs.get(l):
            if self._depth > 0 and b.kind in ("Fn", "AssocFn"):
                return {("param", l, steps)}   # a callee analysed for its caller: keep the projection
            return None
        sel, rest = steps[0], steps[1:]
        for (bb, kind, d) in b.defs.get(l, []):
            if kind == "call":
                out |= self._call_sel(d, steps, depth, seen)
                continue
            dst = d["dst"]
            rv = d["rv"]
            dsteps, dcomplete = self._steps(dst)
            if [e for e in dst["p"] if e != "*"]:
                # partial write  x.f = v  /  (x as V).k = v  (possibly deeper)
                if not dsteps:
                    out |= self._rv(d)
                    continue
                n = min(len(dsteps), len(steps))
                if dsteps[:n] != steps[:n]:
                    # a write to a different field / payload; a variant step also matches a write to
                    # the same variant with another field index only if indices are equal -> skip
                    continue
                if len(dsteps) <= len(steps) and dcomplete:
                    out |= self._rv_sel(d, steps[len(dsteps):], depth, seen)
                else:
                    out |= self._rv(d)
                continue
            out |= self._rv_sel(d, steps, depth, seen)
        for c in self._mutations().get(l, []):
            for a in c.args[1:]:
                out |= self.origins_op(a)
        return out or None

    def _rv_sel(self, d, steps, depth, seen):
        """origins of the value of assignment `d` projected by `steps`"""
        if not steps:
            return self._rv(d)
        rv = d["rv"]
        sel, rest = steps[0], steps[1:]
        k = rv["k"]
        if k in ("use", "cast"):
            q = op_place(rv["op"])
            if q is None:
                return self.origins_op(rv["op"])
            return self._place_sel(q, steps, depth, seen)
        if k in ("ref", "rawptr"):
            return self._place_sel(rv["place"], steps, depth, seen)
        if k == "agg":
            if rv.get("agg") == "adt":
                if sel[0] == "variant":
                    if rv.get("variant_idx") == sel[1]:
                        if sel[2] < len(rv["ops"]):
                            return self._op_sel(rv["ops"][sel[2]], rest, depth, seen)
                    return set()   # another variant stores nothing into this payload
                if len(rv["ops"]) == len(rv.get("fields", [])) and sel[1] < len(rv["ops"]):
                    return self._op_sel(rv["ops"][sel[1]], rest, depth, seen)
                return self._rv(d)
            if rv.get("agg") == "tuple" and sel[0] == "field":
                if sel[1] < len(rv["ops"]):
                    return self._op_sel(rv["ops"][sel[1]], rest, depth, seen)
                return set()
        return self._rv(d)

    def _upvar_name(self, idx):
        for u in self.body.j.get("upvars", []):
            for e in u["place"]["p"]:
                if isinstance(e, dict) and e.get("f") == idx:
                    return u["name"]
        return idx

    def origins(self, l):
        if l in self._memo:
            return self._memo[l]
        self._memo[l] = set()  # cycle guard: fixpoint by re-evaluation below
        prev = None
        res = set()
        for _ in range(4):
            res = self._compute(l)
            self._memo[l] = res
            if res == prev:
                break
            prev = res
        return res

    def _compute(self, l):
        b = self.body
        out = set()
        if 1 <= l <= b.arg_count:
            if b.kind.startswith("coroutine") and l == 2:
                out.add(("resume",))
            else:
                out.add(("param", l))
        for (bb, kind, d) in b.defs.get(l, []):
            if kind == "assign":
                out |= self._rv(d)
            else:
                out |= self._call(d)
        for c in self._mutations().get(l, []):
            for a in c.args[1:]:
                out |= self.origins_op(a)
        if not out:
            out.add(("unknown", "_%d" % l))
        return out

    def _rv(self, st):
        rv = st["rv"]
        k = rv["k"]
        if k == "use" or k == "cast" or k == "repeat":
            return self.origins_op(rv["op"])
        if k in ("ref", "rawptr"):
            return self.origins_place(rv["place"])
        if k == "agg":
            out = set()
            for o in rv["ops"]:
                out |= self.origins_op(o)
            if not rv["ops"] and rv.get("agg") in ("closure", "coroutine", "coroutine_closure"):
                return set()   # a capture-less closure value carries no data
            if not rv["ops"]:
                out.add(("const", _freeze({"text": "%s::%s" % (rv.get("adt", rv["agg"]), rv.get("variant", "")), "unit": True})))
            return out
        if k == "bin":
            return {("bin", rv["op"], _sid(st))}
        if k == "un":
            if rv["op"] in ("PtrMetadata",):
                return self.origins_op(rv["a"])
            return {("un", rv["op"], _sid(st))}
        if k == "discr":
            return {("discr", _sid(st))}
        return {("unknown", rv.get("text", k))}

    _IDENTITY = re.compile(r"::(clone|to_owned|deref|deref_mut|as_ref|as_mut|borrow|borrow_mut)$")

    def _local_callee(self, c):
        if not (self.interproc and self._depth < 3):
            return None
        cb = self.body.facts.body(c.name) if c.name else None
        if cb is not None and cb.id != self.body.id and cb.nblocks <= 60 and cb.kind in ("Fn", "AssocFn"):
            return cb
        return None

    def _call_sel(self, c, steps, depth, seen):
        """origins of (result of call c) projected by steps"""
        for n in c.names():
            for s in self.stop_at:
                if re.search(s, n):
                    return {("call", c)}
        if any(self._IDENTITY.search(n) for n in c.names()) and len(c.args) == 1 and not c.local:
            return self._op_sel(c.args[0], steps, depth, seen)
        if c.matches(r"Try>::branch$") and len(c.args) == 1 and not c.local and steps and steps[0][0] == "variant" and steps[0][2] == 0:
            # `x?`: ControlFlow::Continue(v) carries x's Ok / Some payload, Break(r) its Err payload
            q = op_place(c.args[0])
            ty = self.body.local_ty(q["l"]) if q is not None and not q["p"] else ""
            is_res, is_opt = ty.startswith("std::result::Result<"), ty.startswith("std::option::Option<")
            if steps[0][1] == 0 and (is_res or is_opt):
                return self._op_sel(c.args[0], (("variant", 0 if is_res else 1, 0),) + tuple(steps[1:]), depth, seen)
            if steps[0][1] == 1 and is_res and len(steps) >= 2 and steps[1] == ("variant", 1, 0):
                return self._op_sel(c.args[0], (("variant", 1, 0),) + tuple(steps[2:]), depth, seen)
        if not is_pass_through(c, self.extra):
            cb = self._local_callee(c)
            if cb is not None:
                sub = Prov(cb, self.extra, self.stop_at, interproc=True, _depth=self._depth + 1)
                r = sub._origins_sel(0, steps, 0, frozenset())
                if r:
                    out = set()
                    for o in r:
                        if o[0] == "param":
                            if o[1] - 1 < len(c.args):
                                if len(o) > 2 and o[2]:
                                    out |= self._op_sel(c.args[o[1] - 1], o[2], depth, seen)
                                else:
                                    out |= self.origins_op(c.args[o[1] - 1])
                        else:
                            out.add(o)
                    return out
        return self._call(c)

    def _call(self, c):
        for n in c.names():
            for s in self.stop_at:
                if re.search(s, n):
                    return {("call", c)}
        pt = is_pass_through(c, self.extra)
        if not pt:
            if self.interproc and self._depth < 3:
                cb = self.body.facts.body(c.name) if c.name else None
                if cb is not None and cb.id != self.body.id and cb.nblocks <= 60 and cb.kind in ("Fn", "AssocFn"):
                    sub = Prov(cb, self.extra, self.stop_at, interproc=True, _depth=self._depth + 1)
                    out = {("call", c)}
                    for o in sub.origins(0):
                        if o[0] == "param" and o[1] - 1 < len(c.args):
                            if len(o) > 2 and o[2]:
                                out |= self._op_sel(c.args[o[1] - 1], o[2], 0, frozenset())
                            else:
                                out |= self.origins_op(c.args[o[1] - 1])
                        elif o[0] == "const":
                            out.add(o)
                    return out
            return {("call", c)}
        out = set()
        args = c.args[:1] if pt == "poll_body" or c.matches(r"::poll$") else c.args
        for a in args:
            pa = op_place(a)
            if pa is not None and not pa["p"] and self.body.local_ty(pa["l"]).startswith(("{closure@", "[closure@")):
                continue   # a closure passed to an adaptor is not the value
            o = self.origins_op(a)
            # closures passed to adapters are not the value
            out |= {x for x in o if not (x[0] == "const" and dict(x[1]).get("fn"))}
        if not out:
            out.add(("call", c))
        return out

    # --- convenience -----------------------------------------------------------------
    def calls_in(self, origins):
        return [o[1] for o in origins if o[0] == "call"]

    def consts_in(self, origins):
        return [dict(o[1]) for o in origins if o[0] == "const"]


_SID = {}


def _sid(st):
    """hashable handle for a statement dict"""
    k = id(st)
    _SID[k] = st
    return k


def stmt_of(sid):
    return _SID[sid]


def _freeze(c):
    items = []
    for k, v in c.items():
        if isinstance(v, list):
            v = tuple(v)
        items.append((k, v))
    return tuple(sorted(items, key=lambda kv: kv[0]))
