"""C09 — edits preserve program behaviour apart from the added reference (clause level only).

Decided (necessary conditions):
(a) the message token's literal pieces contain none of `{` `}` `"` `\\` or a line break, so it
    is inert inside a Rust format-string literal, and it satisfies C12 (documented regex
    extracts N);
(b) the message anchor is the start of the literal's inner string_value (inside the quotes);
(c) the key-value token is `KEY = N` + `, `/`; ` built only from constants and the number —
    no source text is copied into it — placed at a legal slot of the log crate's macro grammar
    (after `target: …,`, before the other key-values; C13-R3/R4).
NOT decided: the property proper — rustc's verdict on edited programs and equality of the
emitted records — quantifies over programs and executions.
"""
from ..prov import Prov
from ..facts import op_const
from . import c12, c13, edit
from .c03 import _Only
from .c06 import _run_as

FORBIDDEN = set('{}"\\\n\r')


def run(ctx):
    facts = ctx.bin
    g = ctx.grammar
    P = "C09-a"
    from . import gram as _gram
    _gram.literal_text_premises(ctx, g, "C09-G")
    _gram.g18_message_not_key(ctx, g, "C09-G")
    # (d) the edited file is the original text with the tokens spliced in, complete: C03's copy-through rules
    from . import c03 as _c03
    _run_as(_c03, _c03._Only(ctx, "C09-d", ("partial-write", "copy-shape", "scratch-write-census", "read-exact", "contents-unmodified", "contents-passed",
                                              "writes-census", "copy-", "cursor", "tail", "anchor|", "table|insert", "extra-condition|insert",
                                              "early-exit-first", "loop-filtered", "filter-source")), ctx)
    tb, tt = c12.token_template(ctx, facts, P)
    if tt is not None:
        c, pieces = tt
        lits = [v for k, v in pieces if k == "lit"]
        bad = sorted({ch for l in lits for ch in l if ch in FORBIDDEN})
        ctx.check(not bad, P, "inert-literal", "the message token's literal text %r contains no `{ } \" \\` or line break" % lits, c.where())
        ctx.check(all(k == "lit" or v["default"] for k, v in pieces), P, "plain-placeholder", "the number is rendered with the default `{}` format", c.where())
    _run_as(c12, _Only(ctx, "C09-a", ("token-recognised", "token-doc-regex", "token-spelling", "token-display")), ctx)
    # (b)
    _run_as(c13, _Only(ctx, "C09-b", ("literal-inner", "one-span|span", "same-shift|span", "same-end|span")), ctx)
    from .c05 import rule_same_text
    rule_same_text(ctx, facts, "C09-b")
    # (c)
    _run_as(c13, _Only(ctx, "C09-c", ("prefix-template", "prefix-key", "separators", "kv-count-complete", "kv-scan-complete", "kind-new", "anchor-after-target", "post-target-first-only", "paren-anchor-only-without-target",
                                      "G10|", "G14|", "G6|", "G15|", "G9|", "inner-handles", "post-target-span", "target-flag", "shift-span", "shift-paren", "key-constant")), ctx)
    from .finder import rule_statement_local_state
    rule_statement_local_state(ctx, facts, "C09-c")
    f = facts.one(r"rust_log_ref_finder::find$")
    if ctx.check(f is not None, "C09-c", "anchor|find", "the Rust finder found", ""):
        prov = Prov(f)
        from .finder import entry_args
        ea = entry_args(facts, f) or {}
        for name in ("insertion_prefix", "insertion_suffix"):
            if not ctx.check(name in ea, "C09-c", "anchor|" + name, "the `%s` argument of the entry's construction found" % name, f.where()):
                continue
            org = prov.origins_op(ea[name])
            src = [o for o in org if o == ("param", 1)]
            calls = sorted({o[1].name.split("::")[-1] for o in org if o[0] == "call"})
            consts = sorted({dict(o[1]).get("str") for o in org if o[0] == "const" and dict(o[1]).get("str") is not None})
            ctx.check(not src, "C09-c", "no-source-text|" + name, "`%s` is built from constants and the key only — no text of the edited file is copied into the inserted token (calls: %s, strings: %s)" % (name, calls, consts), f.where())
            allowed_calls = {"get_name_for_ref_kvp_key", "format", "must_use"}
            ctx.check(set(calls) <= allowed_calls, "C09-c", "affix-sources|" + name, "`%s` derives only from %s" % (name, sorted(allowed_calls)), f.where())
            badc = sorted({ch for s in consts for ch in s if ch in FORBIDDEN})
            ctx.check(not badc, "C09-c", "affix-chars|" + name, "constant parts of `%s` contain no quote, brace, backslash or line break" % name, f.where())
    ctx.assume("log crate macro grammar: `target: expr,` first, then key-values `k = v` separated by `,`, closed by `;`, then the format string and its arguments")
    return {
        "explanation": "Only necessary conditions are decided: inertness of the message token inside a format-string literal (no braces, quotes, "
                       "backslashes, line breaks), anchor inside the quotes, key-value token built from constants at a legal slot of the "
                       "log macro grammar. Compilation and record equality of edited programs are not decidable by static analysis of "
                       "breadlog and are not claimed.",
        "trusted": ["rustc MIR", "pest_meta AST", "log crate macro grammar (statement)"],
    }
