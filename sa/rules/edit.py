"""Anchors and role classification shared by the edit-path properties (C01-C03, C06-C08, C15)."""
import re
from .. import cfg, fsapi
from ..common import result_switches_of_call, return_values, single_def
from ..facts import op_place, op_const, rv_str
from ..prov import Prov

INSERT_MAP = r"InsertReferencesProcessor as .*ReferenceProcessor<.*>>::map::\{closure#0\}$"
INSERT_REDUCE = r"InsertReferencesProcessor as .*ReferenceProcessor<.*>>::reduce$"
NEXT_MAP = r"NextReferenceIdProcessor as .*ReferenceProcessor<.*>>::map::\{closure#0\}$"
NEXT_REDUCE = r"NextReferenceIdProcessor as .*ReferenceProcessor<.*>>::reduce$"
COUNT_MAP = r"CountMissingReferenceIdProcessor as .*ReferenceProcessor<.*>>::map::\{closure#0\}$"
COUNT_REDUCE = r"CountMissingReferenceIdProcessor as .*ReferenceProcessor<.*>>::reduce$"
GENERATE = r"generate::generate_code$"
CHECK = r"generate::check_references$"
PROCESS = r"generate::process_references::\{closure#0\}$"
TEMP_NEW = r"generate::AsyncTempFile::new::\{closure#0\}$"
LOCK_CONST = "Breadlog.lock"


def anchor(ctx, facts, rule, pat, what):
    b = facts.one(pat)
    ctx.check(b is not None, rule, "anchor|" + what, "anchor `%s` found" % what, b.where() if b else "")
    return b


def mutating_sites(facts):
    """All call sites in non-test local bodies whose callee is a filesystem mutator."""
    out = []
    skip = facts.fully_inlined()   # helpers that only exist inside the anchored bodies they were inlined into
    for b in facts.non_test_bodies():
        if b.id in skip:
            continue
        for c in b.calls:
            names = c.names()
            if any(fsapi.classify(n) == "mutating" for n in names):
                # polling a future's body is not a new operation
                if re.search(r"::\{closure#\d+\}$", c.name) or c.matches(r"::poll$"):
                    continue
                out.append((b, c))
    return out


def origin_calls(prov, op):
    return [o[1] for o in prov.origins_op(op) if o[0] == "call"]


def derives_from_call(prov, op, pat):
    return any(c.matches(pat) for c in origin_calls(prov, op))


def derives_only_from(prov, op, pred):
    org = prov.origins_op(op)
    return bool(org) and all(pred(o) for o in org)


def has_const_str(prov, op, text):
    """does the constant `text` flow into `op`? Followed through the returns of local helper
    functions and, for a helper's parameters and a closure's captures, through the call sites."""
    from ..interproc import expand
    ip = Prov(prov.body, prov.extra, prov.stop_at, interproc=True)
    org = ip.origins_op(op)
    if any(o[0] in ("param", "upvar") for o in org):
        try:
            org = expand(prov.body.facts, prov.body, org, prov.stop_at)
        except RecursionError:
            pass
    for o in org:
        if o[0] == "const":
            d = dict(o[1])
            if d.get("str") == text:
                return True
            if d.get("unevaluated", "").endswith("CACHE_FILENAME"):
                return True
    return False


STOPS = (r"AsyncTempFile::(path|file)$",)


def _org(facts, b, op):
    from ..interproc import origins_ip
    return origins_ip(facts, b, op, stop_at=STOPS)


def _calls(org):
    return [o[1] for o in org if o[0] == "call"]


def _scratch_handle(facts, b, op):
    """operand is (only) AsyncTempFile::file(x) with x (only) from AsyncTempFile::new — resolved through
    helper parameters and captures"""
    org = _org(facts, b, op)
    cs = _calls(org)
    if not cs or len(cs) != len(org):
        return False
    for x in cs:
        if x.matches(r"AsyncTempFile::new$"):
            continue  # the scratch object itself (e.g. `self.file` inside a method of AsyncTempFile)
        if not x.matches(r"AsyncTempFile::file$"):
            return False
        o2 = _org(facts, x.body, x.args[0])
        c2 = _calls(o2)
        if not c2 or len(c2) != len(o2) or not all(y.matches(r"AsyncTempFile::new$") for y in c2):
            return False
    return True


def classify_site(facts, b, c):
    """role of one mutating call site, or (None, reason). Operand provenance is resolved through the
    parameters of local helper functions and the captures of closures / async blocks."""
    prov = Prov(b, stop_at=STOPS)
    nm = c.name
    if re.search(r"async_std::fs::File::create$", nm):
        a = c.args[0]
        org = _org(facts, b, a)
        ok = any(x.matches(r"^std::env::temp_dir$") for x in _calls(org))
        tainted = any(o[0] in ("param", "upvar") for o in org)
        if ok and not tainted and re.search(r"AsyncTempFile::new", b.id):
            return ("scratch-create", None)
        return (None, "File::create on a path that is not (only) std::env::temp_dir()+uuid inside AsyncTempFile::new")
    if re.search(r"WriteExt::(write_all|flush|close)$|File::sync_(all|data)$", nm):
        if _scratch_handle(facts, b, c.args[0]):
            kind = "scratch-write" if nm.endswith("write_all") else ("scratch-flush" if nm.endswith("flush") else ("scratch-close" if nm.endswith("close") else "scratch-sync"))
            return (kind, None)
        return (None, "%s on something that is not the scratch file" % nm.split("::")[-1])
    if re.search(r"async_std::fs::rename$", nm):
        so = _org(facts, b, c.args[0])
        srcs = _calls(so)
        src_ok = bool(srcs) and len(srcs) == len(so) and all(x.matches(r"AsyncTempFile::path$") for x in srcs)
        if src_ok:
            for x in srcs:
                o2 = _org(facts, x.body, x.args[0])
                c2 = _calls(o2)
                src_ok = src_ok and bool(c2) and len(c2) == len(o2) and all(y.matches(r"AsyncTempFile::new$") for y in c2)
        dst = _org(facts, b, c.args[1])
        # the destination must be the `path` argument of InsertReferencesProcessor::map (the file being processed)
        dst_ok = bool(dst) and all(o[0] == "param" and o[1] == 1 and len(o) > 2 and re.search(r"InsertReferencesProcessor as .*::map$", o[2]) for o in dst)
        if src_ok and dst_ok:
            return ("publish", None)
        return (None, "rename whose source is not the scratch path or whose destination is not the file being processed")
    if re.search(r"^std::fs::remove_file$", nm):
        a = c.args[0]
        ok = False
        if re.search(r"AsyncTempFile as std::ops::Drop>::drop$", b.id):
            org = prov.origins_op(a)
            ok = bool(org) and all(o == ("param", 1) for o in org)
        if ok:
            return ("scratch-unlink", None)
        return (None, "remove_file outside AsyncTempFile::drop / on a path other than self.path")
    # lock writer: any mutating call whose path operand carries the lock file name
    for a in c.args[:2]:
        if has_const_str(prov, a, LOCK_CONST):
            return ("lock-write", None)
    return (None, "unrecognised filesystem mutation `%s`" % nm)


def awaited_result_switches(body, prov, call):
    """Result/Option switches whose subject originates exactly from `call` (through the await)."""
    return [(bb, c, var, arms) for (bb, c, var, arms) in
            result_switches_of_call(body, prov, lambda x: x.bb == call.bb)]


def failure_returns(body):
    """(bb, stmt, failure_operand, count_operand) for `_0 = Some(InsertReferencesResult{..})`"""
    out = []
    for (bb, st) in return_values(body):
        rv = st["rv"]
        info = {"bb": bb, "st": st, "failure": None, "count": None, "kind": "other"}
        if rv["k"] == "agg" and rv.get("agg") == "adt" and rv["adt"].endswith("Option"):
            if rv["variant"] == "None":
                info["kind"] = "none"
            elif rv["ops"]:
                p = op_place(rv["ops"][0])
                d = single_def(body, p["l"]) if p and not p["p"] else None
                hops = 0
                while d and d[1] == "assign" and d[2]["rv"]["k"] == "use" and op_place(d[2]["rv"]["op"]) and not op_place(d[2]["rv"]["op"])["p"] and hops < 4:
                    d = single_def(body, op_place(d[2]["rv"]["op"])["l"])
                    hops += 1
                if d and d[1] == "assign":
                    r2 = d[2]["rv"]
                    if r2["k"] == "agg" and r2.get("agg") == "adt" and r2["adt"].endswith("InsertReferencesResult"):
                        info["kind"] = "result"
                        info["failure"] = r2["ops"][r2["fields"].index("failure")]
                        info["count"] = r2["ops"][r2["fields"].index("num_inserted_references")]
                if info["kind"] == "other":
                    # the struct is built elsewhere (an inlined helper, a Poll::Ready payload, a tuple ...): follow the value
                    from ..common import value_sites
                    leaves = value_sites(body, rv["ops"][0])
                    aggs = [x["rv"] for (_b, x) in leaves if isinstance(x, dict) and x["rv"]["k"] == "agg" and x["rv"].get("agg") == "adt"
                            and x["rv"].get("adt", "").endswith("InsertReferencesResult")]
                    if leaves and len(aggs) == len(leaves):
                        fo = [a["ops"][a["fields"].index("failure")] for a in aggs]
                        fc = {(op_const(o) or {}).get("int") for o in fo}
                        if len(aggs) == 1 or (len(fc) == 1 and None not in fc):
                            info["kind"] = "result"
                            info["failure"] = fo[0]
                            co = [a["ops"][a["fields"].index("num_inserted_references")] for a in aggs]
                            info["count"] = co[0] if len(aggs) == 1 else None
                if info["kind"] != "other":
                    pass
                elif d and d[1] == "call":
                    # a local constructor helper such as `InsertReferencesResult::failed()`: accepted when
                    # every return of the helper builds the struct from constants
                    cb = body.facts.body(d[2].name)
                    if cb is not None and not cb.calls:
                        aggs = []
                        for (rb, rst) in return_values(cb):
                            r3 = rst["rv"]
                            if r3["k"] == "agg" and r3.get("agg") == "adt" and r3["adt"].endswith("InsertReferencesResult") \
                                    and all(op_const(o) is not None for o in r3["ops"]):
                                aggs.append(r3)
                            else:
                                aggs = None
                                break
                        if aggs and len({tuple((op_const(o) or {}).get("int") for o in a["ops"]) for a in aggs}) == 1:
                            r2 = aggs[0]
                            info["kind"] = "result"
                            info["failure"] = r2["ops"][r2["fields"].index("failure")]
                            info["count"] = r2["ops"][r2["fields"].index("num_inserted_references")]
        for k_ in ("failure", "count"):
            # a field filled from a helper's parameter (inlined constructor): what the caller passed
            o_ = info.get(k_)
            hops_ = 0
            while o_ is not None and op_const(o_) is None and op_place(o_) is not None and not op_place(o_)["p"] and hops_ < 6:
                d_ = single_def(body, op_place(o_)["l"])
                if d_ and d_[1] == "assign" and d_[2]["rv"]["k"] == "use":
                    o_ = d_[2]["rv"]["op"]
                    hops_ += 1
                else:
                    break
            if o_ is not None and op_const(o_) is not None:
                info[k_] = o_
        out.append(info)
    # a call that writes the return place directly (e.g. `?` on an Option: FromResidual::from_residual)
    for c in body.calls:
        if c.dst["l"] == 0 and not c.dst["p"]:
            out.append({"bb": c.bb, "st": None, "failure": None, "count": None,
                        "kind": "none" if c.matches(r"from_residual$") else "call:" + c.name.split("::")[-1]})
    return out


def const_bool(op):
    c = op_const(op)
    if c is not None and "int" in c and c["ty"] == "bool":
        return bool(c["int"])
    return None


def examining_switches(body, prov, call):
    """Result switches whose subject may originate from `call` (possibly merged with other results)."""
    from ..common import enum_switch, ty_variants, POLL_VARIANTS
    out = []
    for bb in sorted(body.reachable_blocks()):
        es = enum_switch(body, bb)
        if es is None:
            continue
        place, arms, otherwise = es
        if place["p"]:
            continue
        tyname = body.local_ty(place["l"])
        var = ty_variants(tyname)
        if var is POLL_VARIANTS:
            continue
        if var is None and not tyname.startswith(("std::ops::ControlFlow<", "core::ops::ControlFlow<")):
            continue
        org = prov.origins(place["l"])
        if any(o[0] == "call" and o[1].bb == call.bb for o in org):
            if var is not None and "None" in var:
                # an Option-returning step: None is the failure arm
                out.append((bb, arms.get(0, otherwise), arms.get(1, otherwise)))
            else:
                # Result (Err = 1) or the ControlFlow of `?` (Break = 1)
                out.append((bb, arms.get(1, otherwise), arms.get(0, otherwise)))
    # `.is_ok()` / `.is_err()` tests
    from ..common import trace_bool, bool_switch_targets
    for bb in sorted(body.reachable_blocks()):
        t = body.term(bb)
        if t["k"] != "switch":
            continue
        k, pl, neg = trace_bool(body, t["discr"])
        if k == "call" and pl.matches(r"Result::<.*>::is_(ok|err)$") and pl.args:
            org = prov.origins_op(pl.args[0])
            if any(o[0] == "call" and o[1].bb == call.bb for o in org):
                tt, ft = bool_switch_targets(body, bb)
                if neg:
                    tt, ft = ft, tt
                if pl.matches(r"is_ok$"):
                    out.append((bb, ft, tt))
                else:
                    out.append((bb, tt, ft))
    return out


_WRAP = {}


def wrappers(facts):
    """local helper functions that perform storage steps on their arguments: fn id -> sorted list of roles.
    (an `async fn` helper's steps are in its coroutine body; they are attributed to the fn)"""
    k = id(facts)
    if k in _WRAP:
        return _WRAP[k]
    out = {}
    for (b, c) in mutating_sites(facts):
        owner = b
        while owner is not None and owner.kind not in ("Fn", "AssocFn"):
            owner = facts.body(owner.parent) if owner.parent else None
        if owner is None:
            continue
        if re.search(INSERT_MAP.replace(r"::\{closure#0\}$", "$"), owner.id) or re.search(r"AsyncTempFile::new$|AsyncTempFile as std::ops::Drop", owner.id) or \
                re.search(r"Context::(cache_next_reference_id|read_cached_next_reference_id)$", owner.id):
            continue
        role, why = classify_site(facts, b, c)
        out.setdefault(owner.id, set()).add(role or "unknown")
    _WRAP[k] = {f: sorted(r) for f, r in out.items()}
    return _WRAP[k]


def storage_ops(facts, body):
    """(role, Call) of the storage operations performed in `body` (the insert map coroutine), including
    calls to single-role local wrappers"""
    out = []
    wr = wrappers(facts)
    for c in body.calls:
        if c.matches(r"AsyncTempFile::new$"):
            out.append(("scratch-create", c))
            continue
        if re.search(r"::\{closure#\d+\}$", c.name) or c.matches(r"::poll$"):
            continue
        if c.name in wr:
            roles = wr[c.name]
            out.append((roles[0] if len(roles) == 1 else "composite:" + "+".join(roles), c))
            continue
        if any(fsapi.classify(n) == "mutating" for n in c.names()):
            role, why = classify_site(facts, body, c)
            out.append((role or "unknown", c))
    return out
