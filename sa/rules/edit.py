"""Anchors and role classification shared by the edit-path properties (C01-C03, C06-C08, C15)."""
import re
from .. import cfg, fsapi
from ..common import result_switches_of_call, return_values, single_def
from ..facts import op_place, op_const, rv_str
from ..prov import Prov

INSERT_MAP = r"InsertReferencesProcessor as .*ReferenceProcessor<.*>>::map::\{closure#0\}$"
INSERT_REDUCE = r"InsertReferencesProcessor as .*ReferenceProcessor<.*>>::reduce$"
NEXT_MAP = r"NextReferenceIdProcessor as .*ReferenceProcessor<.*>>::map::\{closure#0\}$"
NEXT_REDUCE = r"NextReferenceIdProcessor as .*ReferenceProcessor<.*>>::reduce$"
COUNT_MAP = r"CountMissingReferenceIdProcessor as .*ReferenceProcessor<.*>>::map::\{closure#0\}$"
COUNT_REDUCE = r"CountMissingReferenceIdProcessor as .*ReferenceProcessor<.*>>::reduce$"
GENERATE = r"generate::generate_code$"
CHECK = r"generate::check_references$"
PROCESS = r"generate::process_references::\{closure#0\}$"
TEMP_NEW = r"generate::AsyncTempFile::new::\{closure#0\}$"
LOCK_CONST = "Breadlog.lock"


def anchor(ctx, facts, rule, pat, what):
    b = facts.one(pat)
    ctx.check(b is not None, rule, "anchor|" + what, "anchor `%s` found" % what, b.where() if b else "")
    return b


def mutating_sites(facts):
    """All call sites in non-test local bodies whose callee is a filesystem mutator."""
    out = []
    for b in facts.non_test_bodies():
        for c in b.calls:
            names = c.names()
            if any(fsapi.classify(n) == "mutating" for n in names):
                # polling a future's body is not a new operation
                if re.search(r"::\{closure#\d+\}$", c.name) or c.matches(r"::poll$"):
                    continue
                out.append((b, c))
    return out


def origin_calls(prov, op):
    return [o[1] for o in prov.origins_op(op) if o[0] == "call"]


def derives_from_call(prov, op, pat):
    return any(c.matches(pat) for c in origin_calls(prov, op))


def derives_only_from(prov, op, pred):
    org = prov.origins_op(op)
    return bool(org) and all(pred(o) for o in org)


def has_const_str(prov, op, text):
    ip = Prov(prov.body, prov.extra, prov.stop_at, interproc=True)
    for o in ip.origins_op(op):
        if o[0] == "const":
            d = dict(o[1])
            if d.get("str") == text:
                return True
            if d.get("unevaluated", "").endswith("CACHE_FILENAME"):
                return True
    return False


def classify_site(facts, b, c):
    """role of one mutating call site, or (None, reason)."""
    prov = Prov(b, stop_at=(r"AsyncTempFile::(path|file)$",))
    nm = c.name
    if re.search(r"async_std::fs::File::create$", nm):
        a = c.args[0]
        ok = derives_from_call(prov, a, r"^std::env::temp_dir$")
        tainted = any(o[0] in ("param", "upvar") for o in prov.origins_op(a))
        if ok and not tainted and re.search(r"AsyncTempFile::new", b.id):
            return ("scratch-create", None)
        return (None, "File::create on a path that is not (only) std::env::temp_dir()+uuid inside AsyncTempFile::new")
    if re.search(r"WriteExt::(write_all|flush|close)$|File::sync_(all|data)$", nm):
        a = c.args[0]
        if derives_from_call(prov, a, r"AsyncTempFile::file$"):
            recv = [x for x in origin_calls(prov, a) if x.matches(r"AsyncTempFile::file$")]
            if len(recv) == len(origin_calls(prov, a)) and all(derives_from_call(prov, r.args[0], r"AsyncTempFile::new$") for r in recv):
                kind = "scratch-write" if nm.endswith("write_all") else ("scratch-flush" if nm.endswith("flush") else ("scratch-close" if nm.endswith("close") else "scratch-sync"))
                return (kind, None)
        return (None, "%s on something that is not the scratch file" % nm.split("::")[-1])
    if re.search(r"async_std::fs::rename$", nm):
        srcs = origin_calls(prov, c.args[0])
        src_ok = bool(srcs) and all(x.matches(r"AsyncTempFile::path$") and derives_from_call(prov, x.args[0], r"AsyncTempFile::new$") for x in srcs) \
            and len(srcs) == len(prov.origins_op(c.args[0]))
        dst = prov.origins_op(c.args[1])
        dst_ok = bool(dst) and all(o[0] == "upvar" and o[1] == "path" for o in dst)
        if src_ok and dst_ok and re.search(INSERT_MAP, b.id):
            return ("publish", None)
        return (None, "rename whose source is not the scratch path or whose destination is not the file being processed")
    if re.search(r"^std::fs::remove_file$", nm):
        a = c.args[0]
        p = op_place(a)
        ok = False
        if re.search(r"AsyncTempFile as std::ops::Drop>::drop$", b.id):
            org = prov.origins_op(a)
            ok = bool(org) and all(o == ("param", 1) for o in org)
        if ok:
            return ("scratch-unlink", None)
        return (None, "remove_file outside AsyncTempFile::drop / on a path other than self.path")
    # lock writer: any mutating call whose path operand carries the lock file name
    for a in c.args[:2]:
        if has_const_str(prov, a, LOCK_CONST):
            return ("lock-write", None)
    return (None, "unrecognised filesystem mutation `%s`" % nm)


def awaited_result_switches(body, prov, call):
    """Result/Option switches whose subject originates exactly from `call` (through the await)."""
    return [(bb, c, var, arms) for (bb, c, var, arms) in
            result_switches_of_call(body, prov, lambda x: x.bb == call.bb)]


def failure_returns(body):
    """(bb, stmt, failure_operand, count_operand) for `_0 = Some(InsertReferencesResult{..})`"""
    out = []
    for (bb, st) in return_values(body):
        rv = st["rv"]
        info = {"bb": bb, "st": st, "failure": None, "count": None, "kind": "other"}
        if rv["k"] == "agg" and rv.get("agg") == "adt" and rv["adt"].endswith("Option"):
            if rv["variant"] == "None":
                info["kind"] = "none"
            elif rv["ops"]:
                p = op_place(rv["ops"][0])
                d = single_def(body, p["l"]) if p and not p["p"] else None
                hops = 0
                while d and d[1] == "assign" and d[2]["rv"]["k"] == "use" and op_place(d[2]["rv"]["op"]) and not op_place(d[2]["rv"]["op"])["p"] and hops < 4:
                    d = single_def(body, op_place(d[2]["rv"]["op"])["l"])
                    hops += 1
                if d and d[1] == "assign":
                    r2 = d[2]["rv"]
                    if r2["k"] == "agg" and r2.get("agg") == "adt" and r2["adt"].endswith("InsertReferencesResult"):
                        info["kind"] = "result"
                        info["failure"] = r2["ops"][r2["fields"].index("failure")]
                        info["count"] = r2["ops"][r2["fields"].index("num_inserted_references")]
                elif d and d[1] == "call":
                    # a local constructor helper such as `InsertReferencesResult::failed()`: accepted when
                    # every return of the helper builds the struct from constants
                    cb = body.facts.body(d[2].name)
                    if cb is not None and not cb.calls:
                        aggs = []
                        for (rb, rst) in return_values(cb):
                            r3 = rst["rv"]
                            if r3["k"] == "agg" and r3.get("agg") == "adt" and r3["adt"].endswith("InsertReferencesResult") \
                                    and all(op_const(o) is not None for o in r3["ops"]):
                                aggs.append(r3)
                            else:
                                aggs = None
                                break
                        if aggs and len({tuple((op_const(o) or {}).get("int") for o in a["ops"]) for a in aggs}) == 1:
                            r2 = aggs[0]
                            info["kind"] = "result"
                            info["failure"] = r2["ops"][r2["fields"].index("failure")]
                            info["count"] = r2["ops"][r2["fields"].index("num_inserted_references")]
        out.append(info)
    return out


def const_bool(op):
    c = op_const(op)
    if c is not None and "int" in c and c["ty"] == "bool":
        return bool(c["int"])
    return None


def examining_switches(body, prov, call):
    """Result switches whose subject may originate from `call` (possibly merged with other results)."""
    from ..common import enum_switch, ty_variants, POLL_VARIANTS
    out = []
    for bb in sorted(body.reachable_blocks()):
        es = enum_switch(body, bb)
        if es is None:
            continue
        place, arms, otherwise = es
        if place["p"]:
            continue
        var = ty_variants(body.local_ty(place["l"]))
        if var is None or var is POLL_VARIANTS or "Err" not in var:
            continue
        org = prov.origins(place["l"])
        if any(o[0] == "call" and o[1].bb == call.bb for o in org):
            out.append((bb, arms.get(1, otherwise), arms.get(0, otherwise)))
    return out


def storage_ops(facts, body):
    """(role, Call) of the storage operations performed in `body` (the insert map coroutine)."""
    out = []
    for c in body.calls:
        if c.matches(r"AsyncTempFile::new$"):
            out.append(("scratch-create", c))
            continue
        if re.search(r"::\{closure#\d+\}$", c.name) or c.matches(r"::poll$"):
            continue
        if any(fsapi.classify(n) == "mutating" for n in c.names()):
            role, why = classify_site(facts, body, c)
            out.append((role or "unknown", c))
    return out
