"""C10 — every canonical log statement is found and its reference placed correctly.
Clause level only: grammar attributes that canonical recognition needs (each a necessary
condition with a concrete counter-input, DESIGN §3.6), the macro filter's decision table,
and the anchor provenance of the two reference styles. NOT decided: inclusion of the
canonical statement language in the PEG's accepted language for arbitrary surroundings."""
from . import gram, finder
from .c13 import rule_anchor_provenance


def run(ctx):
    g = ctx.grammar
    facts = ctx.bin
    P = "C10-G"
    gram.g1_whitespace(ctx, g, P)
    gram.g2_comment(ctx, g, P)      # comments between the tokens of a statement are skipped: the COMMENT rule must match them all
    gram.g3_comment_eoi(ctx, g, P)
    gram.g4_non_atomic(ctx, g, P)
    gram.g5_name_atomic(ctx, g, P)
    gram.g6_modifiers(ctx, g, P)
    gram.g7_literal_mandatory(ctx, g, P)
    gram.g12_scan_strings(ctx, g, P)
    gram.g13_qualified(ctx, g, P)
    gram.g14_order(ctx, g, P)
    gram.g15_kvp_args(ctx, g, P)
    gram.g9_kvp_value(ctx, g, P)
    gram.g10_target_visible(ctx, g, P)
    gram.g16_strings_atomic(ctx, g, P)
    gram.g17_string_escapes(ctx, g, P)
    gram.scan_alignment(ctx, g, P)
    finder.rule_macro_filter(ctx, facts, "C10-R1")
    finder.rule_filter_before_entry(ctx, facts, "C10-R1")
    finder.rule_parse_complete(ctx, facts, "C10-R1")
    finder.rule_statement_local_state(ctx, facts, "C10-R1")
    from .confimm import rule_config_as_loaded
    rule_config_as_loaded(ctx, facts, "C10-R1")
    rule_anchor_provenance(ctx, facts, g, "C10-R2")
    from .c05 import rule_same_text
    rule_same_text(ctx, facts, "C10-R2")
    ctx.assume("pest semantics: implicit WHITESPACE/COMMENT skipping between the elements of non-atomic rules, none inside atomic rules")
    return {
        "explanation": "Necessary conditions of canonical recognition decided from the grammar AST (pest_meta) and rustc MIR: whitespace "
                       "set, atomic name token, non-atomic statement rules, modifier vocabulary, element order, string-aware scan loop, "
                       "exact two-form macro filter over all configured macros, anchor provenance. The PEG-acceptance part of the "
                       "property (all layouts, all surroundings) is not decidable in this family and is not claimed.",
        "trusted": ["pest_meta parser/AST", "pest's documented matching semantics", "rustc MIR"],
    }
