"""C04 — check mode never modifies anything.  Whole property, decided on the call graph.

R1 dispatch: every switch on the `check_mode` flag is located; the blocks dominated by its
   false arm are the edit-only region; nothing else is assumed about which mode runs what.
R2 reachability: from `main`, with the edges that leave an edit-only region removed, no
   external leaf classified *mutating* (sa/fsapi.py; fail-closed inside the fs namespaces)
   may be reachable. The report is the shortest call path.
R3 positive control: the same query over the *whole* graph must find the edit path's
   writers (File::create, write_all, rename, remove_file, fs::write); otherwise the
   classification is blind and the check is broken.
"""
from ..callgraph import CallGraph, leaf_def
from ..common import field_switches, dominated_region
from .. import fsapi

FLAG_FIELDS = ("check_mode", "check")


def edit_only_regions(ctx, facts):
    """body id -> set of blocks only executed when check_mode is false"""
    out = {}
    sites = []
    for b in facts.non_test_bodies():
        sw = field_switches(b, FLAG_FIELDS)
        for (bb, tt, ft, place) in sw:
            region = dominated_region(b, ft)
            # the false target must be entered only from this switch, else it is not exclusive
            preds = [p for p in b.pred[ft]]
            if preds != [bb]:
                region = set()
            out.setdefault(b.id, set()).update(region)
            sites.append((b, bb, len(region)))
    return out, sites


def flag_source(ctx, facts):
    """R4: the value stored in the flag field is the parsed command line's, unmodified: traced from every
    construction of a struct with a `check_mode` field back through parameters and helper returns, the only
    source is the result of clap's parse (a default, a constant, a negation or a recomputed value would run
    the edit path although --check was given)"""
    from ..prov import Prov
    from ..interproc import expand
    sites = []
    for b in facts.non_test_bodies():
        for bb in sorted(b.reachable_blocks()):
            for st in b.blocks[bb]["stmts"]:
                if st["k"] != "assign" or st["rv"]["k"] != "agg" or st["rv"].get("agg") != "adt":
                    continue
                fields = st["rv"].get("fields", [])
                for i, fn in enumerate(fields):
                    if fn == "check_mode" and i < len(st["rv"]["ops"]):
                        sites.append((b, bb, st, st["rv"]["ops"][i]))
    ctx.check(len(sites) >= 1, "C04-R4", "flag-store-anchor", "a struct with a `check_mode` field is constructed (%d sites)" % len(sites),
              sites[0][0].where(sites[0][1]) if sites else "")
    for (b, bb, st, op) in sites:
        pr = Prov(b, interproc=True)
        org = expand(facts, b, pr.origins_op(op), interproc=True)
        good, other = [], []
        for o in org:
            if o[0] == "call" and o[1].matches(r"clap::Parser>?::(parse|parse_from|try_parse|try_parse_from)$"):
                good.append(o[1])
            else:
                other.append(o)

        def show(o):
            if o[0] == "call":
                return "call " + o[1].name
            if o[0] == "const":
                return "const " + str(dict(o[1]).get("text", dict(o[1])))
            return str(o[0])
        ctx.check(bool(good) and not other, "C04-R4", "flag-source|%s" % b.id,
                  "the check flag stored at this site comes only from the parsed command line (clap parse: %d; other sources: %s)"
                  % (len(good), sorted(show(o) for o in other) or "none"), b.where(bb))


def run(ctx):
    facts = ctx.bin
    from .confimm import rule_config_as_loaded
    rule_config_as_loaded(ctx, facts, "C04-R4")
    cg = CallGraph(facts)
    regions, sites = edit_only_regions(ctx, facts)
    ctx.check(len(sites) >= 1, "C04-R1", "dispatch-anchor",
              "a branch on the check_mode flag exists (%d found)" % len(sites),
              ", ".join("%s" % b.where(bb) for b, bb, _ in sites))
    for b, bb, n in sites:
        ctx.ok("C04-R1", "edit-only region of the branch on check_mode in %s: %d blocks" % (b.id, n), b.where(bb))

    def skip(e):
        r = regions.get(e["body"])
        return bool(r) and e["bb"] in r

    parent, leaves = cg.reach(roots=cg.roots, skip_edge=skip)
    ctx.check(len(parent) >= 40, "C04-R2", "graph-size",
              "check-mode call graph from main has %d local nodes (floor 40)" % len(parent), "callgraph")
    # the edit driver must not be among them (sanity of the region computation)
    counts = {"mutating": 0, "readonly": 0, "nonfs": 0}
    seen_defs = {}
    bad = {}
    for e in leaves:
        d = leaf_def(e)
        cls = fsapi.classify(d)
        counts[cls] += 1
        seen_defs.setdefault(cls, set()).add(d)
        if cls == "mutating" and d not in bad:
            bad[d] = e
    for d in sorted(seen_defs.get("readonly", ())):
        ctx.ok("C04-R2", "read-only filesystem API reachable in check mode: %s" % d, "callgraph")
    for d, e in sorted(bad.items()):
        chain = cg.path_to(parent, e)
        ctx.bad("C04-R2", "reach|%s|from|%s" % (d, e["body"]),
                "filesystem-mutating API `%s` is reachable in check mode: %s" % (d, CallGraph.fmt_path(chain)),
                "%s:%s" % (e["body"], e["line"]), {"path": [(x["from"], x["to"], x["line"]) for x in chain]})
    if not bad:
        ctx.ok("C04-R2", "no filesystem-mutating API among %d external call edges reachable in check mode "
               "(%d read-only fs, %d non-fs)" % (len(leaves), counts["readonly"], counts["nonfs"]), "callgraph")
    # local writers by role: functions that are themselves lock writers / scratch creators are
    # covered because their fs leaves are reachable through them.

    # R3 positive control on the full graph
    parent_all, leaves_all = cg.reach(roots=cg.roots)
    found = {leaf_def(e) for e in leaves_all if fsapi.classify(leaf_def(e)) == "mutating"}
    import re
    for pat in fsapi.KNOWN_MUTATORS:
        hit = [d for d in found if re.search(pat, d)]
        ctx.check(bool(hit), "C04-R3", "control|%s" % pat,
                  "control: the edit path reaches a mutator matching %s (%s)" % (pat, ", ".join(sorted(hit)) or "none"),
                  "callgraph")
    flag_source(ctx, facts)
    ctx.assume("external functions outside the fs-capable namespaces (sa/fsapi.py FS_NAMESPACES) do not modify the filesystem")
    ctx.assume("nested closures / async blocks of a reachable function are reachable; trait impls of local types are "
               "reachable from any external generic call that mentions the type")
    return {
        "explanation": "Whole-property reachability argument on the monomorphic call graph exported from rustc MIR "
                       "(%d nodes, %d edges): with the edit-only region of every branch on check_mode cut out, no API "
                       "that can create, write, rename, truncate or remove a file is reachable from main. Inside the "
                       "filesystem namespaces any function not on the read-only allow-list counts as a writer." % (len(cg.nodes), len(cg.edges)),
        "trusted": ["rustc MIR + Instance::try_resolve", "sa/fsapi.py classification table"],
        "coverage": {"callgraph_nodes": len(cg.nodes), "callgraph_edges": len(cg.edges),
                     "check_mode_nodes": len(parent), "external_leaf_edges": len(leaves)},
    }
