"""C01 — new IDs are unique and within 1..=u32::MAX.

Argument: the IDs written are exactly the values returned by one shared atomic counter
(R1, R2); the counter starts above every ID the scanning pass saw, or at the lock value
(R3-R5); it only moves by a *checked* +1 whose failure aborts the file and the run (R6);
both passes look at the same files with the same configuration (R7). Hence the IDs are
pairwise distinct, greater than the existing maximum (no-lock case), and the run fails
before leaving the range.
"""
import re
from .. import cfg
from ..common import enum_switch, return_values, single_def, trace_bool, bool_switch_targets, ty_variants
from ..facts import op_place, op_const, rv_str
from ..prov import Prov
from . import edit

RMW = r"atomic::Atomic::<u32>::(fetch_add|fetch_update|fetch_sub|swap|fetch_max|compare_exchange(_weak)?)$"
UNCHECKED_CALL = r"(wrapping_|saturating_|overflowing_|unchecked_)(add|sub|mul)$|::fetch_add$|::fetch_sub$|::unchecked_add$"
ARITH_OPS = ("Add", "Sub", "Mul", "AddWithOverflow", "SubWithOverflow", "MulWithOverflow", "AddUnchecked", "Shl", "Shr")


def rule_ids_from_counter(ctx, facts, prefix="C01-R1"):
    m = edit.anchor(ctx, facts, prefix, edit.INSERT_MAP, "InsertReferencesProcessor::map (async body)")
    if m is None:
        return
    sites = []
    for b in facts.non_test_bodies():
        for c in b.calls_to(r"LogRefEntry::insertable_reference_string$"):
            sites.append((b, c))
    ctx.check(len(sites) == 1 and sites[0][0].id == m.id, prefix, "token-site-count",
              "exactly one call site renders a reference token, inside the insert routine (%d)" % len(sites),
              ", ".join(c.where() for _, c in sites))
    for b, c in sites:
        prov = Prov(b, stop_at=(RMW, r"atomic::Atomic::<u32>::load$"))
        org = prov.origins_op(c.args[1])
        calls = [o[1] for o in org if o[0] == "call"]
        ok = bool(calls) and len(calls) == len(org) and all(x.matches(RMW) for x in calls)
        ctx.check(ok, prefix, "id-source", "the ID rendered into the token is the result of an atomic read-modify-write on the counter (origins: %s)" % sorted({o[0] + (":" + o[1].name.split("::")[-1] if o[0] == "call" else "") for o in org}), c.where())
        p2 = Prov(b)
        for x in calls:
            ro = p2.origins_op(x.args[0])
            ctx.check(bool(ro) and all(o == ("upvar", "params") for o in ro), prefix, "counter-receiver",
                      "the counter operated on is the `params` argument of map (the shared Arc), not a local counter", x.where())
        # one RMW per token: the RMW and the token call are in the same loop iteration, RMW dominates token
        dom = cfg.dominators(b)
        for x in calls:
            ctx.check(x.bb in dom.get(c.bb, ()), prefix, "rmw-dominates-token", "each token is preceded by its own counter step", c.where())


def rule_one_counter(ctx, facts, prefix="C01-R2"):
    g = edit.anchor(ctx, facts, prefix, edit.GENERATE, "generate_code")
    if g is None:
        return
    news = g.calls_to(r"atomic::Atomic::<u32>::new$")
    cyc = cfg.cyclic_blocks(g)
    ctx.check(len(news) == 1 and news[0].bb not in cyc, prefix, "counter-count",
              "exactly one counter is created per run, outside any loop (%d)" % len(news), ", ".join(c.where() for c in news))
    pr = facts.one(edit.PROCESS)
    if ctx.check(pr is not None, prefix, "anchor|process_references", "process_references async block found", ""):
        prov = Prov(pr)
        for c in pr.calls_to(r"ReferenceProcessor(<.*>)?>?::map"):
            org = prov.origins_op(c.args[2])
            ctx.check(bool(org) and all(o == ("upvar", "params") for o in org), prefix, "params-shared",
                      "every file's map call receives (a clone of) the pass's own `params`, not a fresh value", c.where())
        # the closure's params upvar is the function's params argument
        parent = facts.one(r"generate::process_references$")
        if parent is not None:
            pp = Prov(parent)
            for bb in parent.reachable_blocks():
                for st in parent.blocks[bb]["stmts"]:
                    rv = st["rv"] if st["k"] == "assign" else None
                    if rv and rv["k"] == "agg" and rv.get("agg") == "coroutine":
                        names = [u["name"] for u in sorted(pr.j["upvars"], key=lambda u: [e["f"] for e in u["place"]["p"] if isinstance(e, dict) and "f" in e][0])]
                        if "params" in names:
                            op = rv["ops"][names.index("params")]
                            o = pp.origins_op(op)
                            ctx.check(o == {("param", 2)}, prefix, "params-binding", "the async block captures process_references' `params` argument", parent.where(bb))


def rule_start_value(ctx, facts, prefix="C01-R3"):
    g = edit.anchor(ctx, facts, prefix, edit.GENERATE, "generate_code")
    if g is None:
        return
    prov = Prov(g)
    for c in g.calls_to(r"atomic::Atomic::<u32>::new$"):
        org = prov.origins_op(c.args[0])
        bad = []
        from_scan = from_lock = False
        for o in org:
            if o[0] == "call" and o[1].matches(r"generate::process_references$") and "NextReferenceIdProcessor" in o[1].full:
                from_scan = True
            elif o == ("param", 1):
                from_lock = True
            elif o[0] == "const" and dict(o[1]).get("unit"):
                continue   # a unit variant such as `None` carries no number
            elif o[0] == "const" and dict(o[1]).get("int") is None and not re.match(r"^(u|i)(8|16|32|64|128|size)$", str(dict(o[1]).get("ty", ""))):
                continue   # a constant of another type (the `&str` of an `Err(..)` that shares the Result) cannot be the number
            else:
                bad.append(o[0] if o[0] != "const" else "const %s" % dict(o[1]).get("int"))
        ctx.check(not bad, prefix, "start-foreign", "the counter's start value comes only from the lock value or the scanning pass (foreign sources: %s)" % (bad or "none"), c.where())
        ctx.check(from_scan, prefix, "start-no-scan", "without a lock the start value is the scanning pass's result", c.where())
        ctx.check(from_lock, prefix, "start-no-lock", "with a lock the start value is the cached next ID", c.where())
        # which fields of the context / of the scan result flow in
        fields = _field_loads(g, c.args[0])
        allowed = {"cached_next_reference_id", "0", None}
        extra = {f for f in fields if f not in ("cached_next_reference_id", "0")}
        ctx.check("cached_next_reference_id" in fields and "0" in fields and not extra, prefix, "start-fields",
                  "fields feeding the start value: %s (expected: context.cached_next_reference_id, scan_result.0)" % sorted(str(f) for f in fields), c.where())
    # the lock arm is taken exactly when the cached value is Some (no rescan, no comparison)
    for bb in sorted(g.reachable_blocks()):
        es = enum_switch(g, bb)
        if es and any(isinstance(e, dict) and e.get("n") == "cached_next_reference_id" for e in es[0]["p"]):
            ctx.ok(prefix, "the driver matches on context.cached_next_reference_id to choose the start", g.where(bb))


def _field_loads(body, op, seen=None, depth=0):
    """names of struct/tuple fields loaded on the copy chain feeding `op` (enum payload
    projections `(x as Some).0` are skipped)"""
    seen = seen if seen is not None else set()
    out = set()
    p = op_place(op)
    if p is None or depth > 12:
        return out
    prev_downcast = False
    for e in p["p"]:
        if isinstance(e, dict) and "downcast" in e:
            prev_downcast = True
            continue
        if isinstance(e, dict) and "f" in e:
            if not prev_downcast:
                out.add(e.get("n", str(e["f"])) if e.get("n") else str(e["f"]))
            prev_downcast = False
    if p["l"] in seen:
        return out
    seen.add(p["l"])
    for (bb, kind, d) in body.defs.get(p["l"], []):
        if kind == "assign" and d["rv"]["k"] == "use":
            out |= _field_loads(body, d["rv"]["op"], seen, depth + 1)
        elif kind == "assign" and d["rv"]["k"] == "agg" and d["rv"].get("agg") == "adt" and d["rv"].get("adt", "").split("::")[-1] in ("Option", "Result"):
            for o2 in d["rv"]["ops"]:
                out |= _field_loads(body, o2, seen, depth + 1)
        elif kind == "call" and not d.local and d.matches(r"Try>::branch$|::clone$|Option::<.*>::unwrap$|Result::<.*>::unwrap$") and len(d.args) == 1:
            out |= _field_loads(body, d.args[0], seen, depth + 1)   # `x?` / clone hand the value on
    return out


def _controlling_switches(body, loop, target_bb, head_bb):
    """switch blocks inside `loop` that dominate target_bb and have an arm from which target_bb is
    not reachable without leaving the iteration"""
    dom = cfg.dominators(body)
    out = []
    for s in sorted(loop):
        t = body.term(s)
        if t["k"] != "switch" or s not in dom.get(target_bb, ()):
            continue
        arms = body.succ[s]
        esc = [a for a in arms if target_bb not in cfg.reach(body, [a], avoid=[head_bb])]
        if esc:
            out.append(s)
    return out


def rule_scan_map(ctx, facts, prefix="C01-R4"):
    m = edit.anchor(ctx, facts, prefix, edit.NEXT_MAP, "NextReferenceIdProcessor::map (async body)")
    if m is None:
        return
    prov = Prov(m)
    maxes = m.calls_to(r"^std::cmp::max$|::max$")
    nexts = m.calls_to(r"Iterator>::next$")
    if not ctx.check(len(maxes) == 1 and len(nexts) == 1, prefix, "anchor|max-loop", "one loop with one max() update (%d next, %d max)" % (len(nexts), len(maxes)), m.where()):
        return
    mx, nx = maxes[0], nexts[0]
    # operands: accumulator and reference() payload of the element
    o_all = set()
    for a in mx.args:
        o_all |= prov.origins_op(a)
    ref_ok = any(o[0] == "call" and o[1].matches(r"LogRefEntry::reference$") for o in o_all)
    ctx.check(ref_ok, prefix, "max-operand", "max() folds the entry's reference() value", mx.where())
    for o in o_all:
        if o[0] == "call" and o[1].matches(r"LogRefEntry::reference$"):
            ro = prov.origins_op(o[1].args[0])
            ctx.check(bool(ro) and all(x == ("upvar", "entries") for x in ro), prefix, "max-element", "the reference comes from the loop's element of `entries`", o[1].where())
    # accumulator returned
    acc = mx.dst["l"]
    accs = {acc}
    for (bb, st) in [(bb, st) for bb in m.reachable_blocks() for st in m.blocks[bb]["stmts"] if st["k"] == "assign"]:
        if st["rv"]["k"] == "use" and op_place(st["rv"]["op"]) and op_place(st["rv"]["op"])["l"] in accs and not st["dst"]["p"]:
            accs.add(st["dst"]["l"])
    rets = return_values(m)
    got = False
    for (bb, st) in rets:
        rv = st["rv"]
        if rv["k"] == "agg" and rv.get("variant") == "Some":
            t = single_def(m, op_place(rv["ops"][0])["l"])
            if t and t[1] == "assign" and t[2]["rv"]["k"] == "agg" and t[2]["rv"]["agg"] == "tuple":
                first = op_place(t[2]["rv"]["ops"][0])
                if first and (first["l"] in accs or (single_def(m, first["l"]) and op_place(single_def(m, first["l"])[2]["rv"].get("op")) and op_place(single_def(m, first["l"])[2]["rv"]["op"])["l"] in accs)):
                    got = True
    ctx.check(got, prefix, "max-returned", "the per-file maximum is returned as element .0", m.where())
    # guards
    loop = set()
    for comp in cfg.sccs(m):
        if nx.bb in comp and len(comp) > 1:
            loop = comp
    ctrl = _controlling_switches(m, loop, mx.bb, nx.bb)
    extra = []
    seen_usable = seen_some = False
    for s in ctrl:
        kind, payload, neg = trace_bool(m, m.term(s)["discr"])
        if kind == "call" and payload.matches(r"LogRefEntry::usable_reference_position$"):
            seen_usable = True
            continue
        es = enum_switch(m, s)
        if es is not None and not es[0]["p"]:
            d = single_def(m, es[0]["l"])
            if d and d[1] == "call" and d[2].matches(r"Iterator>::next$"):
                continue
            if d and d[1] == "call" and d[2].matches(r"LogRefEntry::reference$"):
                seen_some = True
                continue
        extra.append(m.where(s))
    ctx.check(not extra, prefix, "extra-guard", "no condition other than `usable` and `reference is Some` decides whether an ID reaches the maximum (extra guards at: %s)" % (extra or "none"), mx.where())
    ctx.check(seen_some, prefix, "some-guard", "the maximum is updated for every entry that carries a reference", mx.where())


def rule_scan_reduce(ctx, facts, prefix="C01-R5"):
    r = edit.anchor(ctx, facts, prefix, edit.NEXT_REDUCE, "NextReferenceIdProcessor::reduce")
    if r is None:
        return
    prov = Prov(r)
    maxes = r.calls_to(r"^std::cmp::max$|::max$")
    if not ctx.check(len(maxes) == 1, prefix, "anchor|max", "one max() fold in reduce (%d)" % len(maxes), r.where()):
        return
    mx = maxes[0]
    if mx.matches(r"Iterator>::max$|iter::Iterator::max$"):
        _scan_reduce_iterator_form(ctx, facts, r, prov, mx, prefix)
        return
    acc = _acc_local(r, mx)
    cyc = cfg.cyclic_blocks(r)
    ctx.check(mx.bb in cyc, prefix, "fold-in-loop", "the max() fold runs inside the loop over the map results", mx.where())
    # the other operand is element.0 of the whole slice
    elem_ok = False
    for a in mx.args:
        p = op_place(a)
        if p and _loads_tuple_field(r, a, 0):
            o = prov.origins_op(a)
            if o == {("param", 1)}:
                elem_ok = True
    ctx.check(elem_ok, prefix, "fold-operand", "the fold's operand is `.0` of each element of the input slice", mx.where())
    from .c08 import _iter_chain_ok
    ctx.check(all(_iter_chain_ok(r, prov, a) for a in mx.args if op_place(a) and _loads_tuple_field(r, a, 0)), prefix, "fold-whole-slice",
              "the loop iterates the whole slice (no skip/take/filter)", mx.where())
    init = [op_const(d[2]["rv"]["op"]).get("int") for d in r.defs.get(acc, []) if d[1] == "assign" and d[2]["rv"]["k"] == "use" and op_const(d[2]["rv"]["op"]) is not None]
    ctx.check(init == [0], prefix, "fold-init", "the maximum accumulator starts at 0 (%s)" % init, r.where())
    # returns
    n_some = 0
    for (bb, st) in return_values(r):
        rv = st["rv"]
        if rv["k"] == "agg" and rv.get("variant") == "Some":
            n_some += 1
            t = single_def(r, op_place(rv["ops"][0])["l"])
            first = t[2]["rv"]["ops"][0] if t and t[1] == "assign" and t[2]["rv"]["k"] == "agg" else None
            if first is None:
                ctx.bad(prefix, "ret-shape", "unexpected return shape", r.where(bb))
                continue
            c = op_const(first)
            if c is not None:
                ctx.check(c.get("int") == 1, prefix, "start-const", "the empty-tree start value is 1 (found %s)" % c.get("int"), r.where(bb))
                # must be guarded by acc == 0
                continue
            org = prov.origins_op(first)
            calls = [o[1] for o in org if o[0] == "call"]
            ok = bool(calls) and len(calls) == len(org) and all(x.matches(r"::checked_add$") for x in calls)
            ctx.check(ok, prefix, "next-not-checked", "max+1 is computed with checked_add (origins: %s)" % sorted({o[0] + (":" + o[1].name.split("::")[-1] if o[0] == "call" else "") for o in org}), r.where(bb))
            for x in calls:
                a0 = op_place(x.args[0])
                one = op_const(x.args[1])
                src_acc = a0 is not None and _same_acc(r, a0["l"], acc)
                ctx.check(src_acc and one is not None and one.get("int") == 1, prefix, "next-is-max-plus-1", "the value returned is checked (maximum + 1)", x.where())
        elif rv["k"] == "agg" and rv.get("variant") == "None":
            continue
    fr = r.calls_to(r"from_residual$")
    ctx.check(n_some >= 1, prefix, "no-some", "reduce returns Some((next, missing))", r.where())
    # an overflow (None from checked_add) ends in None, not in a wrapped value
    for x in r.calls_to(r"::checked_add$"):
        sws = []
        for bb in sorted(r.reachable_blocks()):
            es = enum_switch(r, bb)
            if es and not es[0]["p"]:
                org = prov.origins(es[0]["l"])
                if any(o[0] == "call" and o[1].bb == x.bb for o in org):
                    sws.append((bb, es))
        ctx.check(bool(sws), prefix, "checked-unexamined", "the Option from checked_add is examined", x.where())
        for (bb, (place, arms, otherwise)) in sws:
            var = ty_variants(r.local_ty(place["l"]))
            if var and "None" in var:
                arm = arms.get(0, otherwise)
            else:  # ControlFlow: Continue=0, Break=1
                arm = arms.get(1, otherwise)
            region = cfg.reach_t(r, arm)
            rets = [st for (rb, st) in return_values(r) if rb in region]
            somes = [st for st in rets if st["rv"]["k"] == "agg" and st["rv"].get("variant") == "Some"]
            resid = [c for c in fr if c.bb in region]
            ctx.check(not somes and (resid or rets), prefix, "overflow-arm", "an exhausted range makes reduce return None", r.where(bb))


def _scan_reduce_iterator_form(ctx, facts, r, prov, mx, prefix):
    """reduce written as  let m = results.iter().map(|r| r.0).max().unwrap_or(0);  …checked_add(m, 1)…"""
    from ..common import iterator_fold, call_chain
    uo = [c for c in r.calls_to(r"Option::<u32>::unwrap_or$|::unwrap_or$") if [x.bb for x in call_chain(r, c.args[0])[0][:1]] == [mx.bb]]
    if not ctx.check(len(uo) == 1, prefix, "fold-init", "the maximum of an empty list is taken as 0 (`.max().unwrap_or(0)`)", mx.where()):
        return
    itf = iterator_fold(facts, r, {"copy": {"l": uo[0].dst["l"], "p": []}})
    good = itf is not None and itf["kind"] == "max" and itf["field"] == "0" and itf["root"] == ("param", 1) and itf["init"] == 0
    ctx.check(good, prefix, "fold-operand", "maximum = map_results.iter().map(|r| r.0).max().unwrap_or(0): over `.0` of every element (%s)" % (itf,), mx.where())
    acc = uo[0].dst["l"]
    n_some = 0
    for (bb, st) in return_values(r):
        rv = st["rv"]
        if rv["k"] == "agg" and rv.get("variant") == "Some":
            n_some += 1
            t = single_def(r, op_place(rv["ops"][0])["l"])
            first = t[2]["rv"]["ops"][0] if t and t[1] == "assign" and t[2]["rv"]["k"] == "agg" else None
            if first is None:
                ctx.bad(prefix, "ret-shape", "unexpected return shape", r.where(bb))
                continue
            c = op_const(first)
            if c is not None:
                ctx.check(c.get("int") == 1, prefix, "start-const", "the empty-tree start value is 1 (found %s)" % c.get("int"), r.where(bb))
                continue
            org = prov.origins_op(first)
            calls = [o[1] for o in org if o[0] == "call"]
            ok = bool(calls) and len(calls) == len(org) and all(x.matches(r"::checked_add$") for x in calls)
            ctx.check(ok, prefix, "next-not-checked", "max+1 is computed with checked_add", r.where(bb))
            for x in calls:
                a0 = op_place(x.args[0])
                one = op_const(x.args[1])
                ctx.check(a0 is not None and _same_acc(r, a0["l"], acc) and one is not None and one.get("int") == 1, prefix, "next-is-max-plus-1", "the value returned is checked (maximum + 1)", x.where())
    ctx.check(n_some >= 1, prefix, "no-some", "reduce returns Some((next, missing))", r.where())


def _acc_local(body, mx):
    """the local that receives max()'s result (following one move)"""
    l = mx.dst["l"]
    for bb in body.reachable_blocks():
        for st in body.blocks[bb]["stmts"]:
            if st["k"] == "assign" and st["rv"]["k"] == "use" and op_place(st["rv"]["op"]) and op_place(st["rv"]["op"])["l"] == l and not st["dst"]["p"]:
                return st["dst"]["l"]
    return l


def _same_acc(body, l, acc, depth=0):
    if l == acc:
        return True
    d = single_def(body, l)
    if d and d[1] == "assign" and d[2]["rv"]["k"] == "use" and depth < 5:
        p = op_place(d[2]["rv"]["op"])
        return p is not None and not p["p"] and _same_acc(body, p["l"], acc, depth + 1)
    return False


def _loads_tuple_field(body, op, idx, depth=0):
    p = op_place(op)
    if p is None or depth > 5:
        return False
    fs = [e for e in p["p"] if isinstance(e, dict) and "f" in e]
    if fs and fs[-1]["f"] == idx:
        return True
    d = single_def(body, p["l"])
    if d and d[1] == "assign" and d[2]["rv"]["k"] == "use":
        return _loads_tuple_field(body, d[2]["rv"]["op"], idx, depth + 1)
    return False


ID_FUNCS = [edit.NEXT_MAP, edit.NEXT_REDUCE, edit.INSERT_MAP, edit.GENERATE, r"Context::read_cached_next_reference_id$",
            r"Context::cache_next_reference_id$", r"LogRefEntry::insertable_reference_string$", r"LogRefEntry::extract_reference$",
            edit.PROCESS, r"generate::process_references$"]


def rule_checked_arithmetic(ctx, facts, prefix="C01-R6"):
    n_sites = 0
    bodies = []
    for pat in ID_FUNCS:
        for b in facts.find(pat):
            bodies.append(b)
            bodies.extend(x for x in facts.nested(b) if x not in bodies)
    for b in bodies:
        for bb in sorted(b.reachable_blocks()):
            for st in b.blocks[bb]["stmts"]:
                if st["k"] != "assign":
                    continue
                rv = st["rv"]
                if rv["k"] == "bin" and rv["op"] in ARITH_OPS and rv.get("ty") == "u32":
                    n_sites += 1
                    ctx.bad(prefix, "raw-arith|%s|%s" % (b.id, rv["op"]),
                            "unchecked u32 arithmetic `%s` in an ID-handling function (wraps in release builds, panics in debug builds)" % rv_str(rv),
                            "%s:%s" % (b.file_short, st["line"]))
                if rv["k"] == "cast" and rv["ty"] == "u32" and rv["kind"].startswith("IntToInt"):
                    n_sites += 1
                    ctx.bad(prefix, "narrowing|%s" % b.id, "narrowing cast to u32 in an ID-handling function: %s" % rv_str(rv), "%s:%s" % (b.file_short, st["line"]))
        for c in b.calls:
            if c.matches(UNCHECKED_CALL) and ("u32" in c.full or "Atomic::<u32>" in c.full):
                n_sites += 1
                ctx.bad(prefix, "unchecked-call|%s|%s" % (b.id, c.name.split("::")[-1]),
                        "`%s` on an ID wraps / saturates instead of failing" % c.name, c.where())
    ctx.ok(prefix, "scanned %d ID-handling bodies for unchecked u32 arithmetic, narrowing casts and wrapping/saturating calls" % len(bodies), "")
    # the counter step: fetch_update with a closure returning checked_add(_, 1); Err arm -> failure
    m = facts.one(edit.INSERT_MAP)
    if m is None:
        return
    prov = Prov(m)
    steps = m.calls_to(RMW)
    ctx.check(len(steps) == 1, prefix, "step-count", "one counter step per inserted token (%d RMW call sites)" % len(steps), m.where())
    rets = edit.failure_returns(m)
    for x in steps:
        if not ctx.check(x.matches(r"::fetch_update$"), prefix, "step-kind", "the counter step is fetch_update (a conditional update), found %s" % x.name.split("::")[-1], x.where()):
            continue
        clo = [o for a in x.args for o in prov.origins_op(a) if o[0] == "const" and dict(o[1]).get("text", "").find("closure") >= 0]
        # the closure is the last argument; find its body by name in the call's generic args
        mm = re.search(r"\{closure@([^}]*)\}", x.full)
        cb = None
        for nb in facts.nested(m):
            if nb.kind == "closure" and mm and ("%s:%d" % (nb.file_short, nb.line)) in mm.group(1).replace("src/", "src/"):
                cb = nb
        if cb is None:
            # fallback: closures nested in the insert routine that call checked_add
            cands = [nb for nb in facts.nested(m) if nb.kind == "closure" and nb.calls_to(r"::checked_add$")]
            cb = cands[0] if len(cands) == 1 else None
        if not ctx.check(cb is not None, prefix, "step-closure", "the update closure of fetch_update was located", x.where()):
            continue
        cadds = cb.calls_to(r"::checked_add$")
        others = [c for c in cb.calls if not c.matches(r"::checked_add$")]
        raw = [st for bb in cb.reachable_blocks() for st in cb.blocks[bb]["stmts"] if st["k"] == "assign" and st["rv"]["k"] == "bin"]
        good = len(cadds) == 1 and not raw and op_const(cadds[0].args[1]) is not None and op_const(cadds[0].args[1]).get("int") == 1 \
            and cadds[0].dst["l"] == 0
        ctx.check(good, prefix, "step-checked", "the update closure returns `id.checked_add(1)` and nothing else", cb.where())
        sw = edit.examining_switches(m, prov, x)
        ctx.check(bool(sw), prefix, "step-unexamined", "the Result of fetch_update is examined", x.where())
        for (bb, err_arm, ok_arm) in sw:
            region = cfg.reach_t(m, err_arm)
            rr = [r for r in rets if r["bb"] in region]
            good = bool(rr) and all(r["kind"] == "result" and edit.const_bool(r["failure"]) is True for r in rr)
            ctx.check(good, prefix, "exhausted-arm", "an exhausted ID range (Err from fetch_update) reaches only `failure: true` results", m.where(bb))
            toks = [c for c in m.calls_to(r"insertable_reference_string$") if c.bb in region]
            ctx.check(not toks, prefix, "exhausted-writes", "no token is rendered after the range is exhausted", m.where(bb))


def rule_same_inputs(ctx, facts, prefix="C01-R7"):
    g = facts.one(edit.GENERATE)
    if g is None:
        return
    prov = Prov(g)
    calls = g.calls_to(r"generate::process_references$")
    ctx.check(len(calls) == 2, prefix, "pass-count", "two passes in the edit driver: scan and insert (%d)" % len(calls), g.where())
    ctxs = [frozenset(prov.origins_op(c.args[0])) for c in calls]
    finders = [frozenset(g.local_name(b) for b in _base_locals(g, prov, c.args[2]) if g.local_name(b)) for c in calls]
    ctx.check(len(set(ctxs)) == 1 and ctxs and ctxs[0] == frozenset({("param", 1)}), prefix, "same-context", "both passes use the driver's context", g.where())
    ctx.check(len(set(finders)) == 1, prefix, "same-finder", "both passes use the same file list (finder)", g.where())
    news = g.calls_to(r"CodeFinder::<'\w+>::new$|CodeFinder::new$")
    ctx.check(len(news) == 1, prefix, "one-finder", "the file list is discovered once per run (%d)" % len(news), g.where())


def rule_file_list_immutable(ctx, facts, prefix):
    """both drivers hand the *discovered* list to every pass: after CodeFinder::new the list is never
    mutated (no retain / filter-in-place / clear / sort / push on it, no `&mut` of the finder), so
    every pass of a run — and --check versus edit — looks at the same files."""
    MUT = r"Vec::<.*>::(retain|retain_mut|clear|truncate|remove|swap_remove|drain|dedup\w*|sort\w*|push|insert|pop|append|extend|split_off|resize\w*|reverse)$|::(find|set_len)$"
    for pat, what in ((edit.GENERATE, "edit driver"), (edit.CHECK, "check driver")):
        d = facts.one(pat)
        if d is None:
            continue
        prov = Prov(d)
        nf = d.calls_to(r"CodeFinder::<'\w+>::new$|CodeFinder::new$")
        if not ctx.check(len(nf) == 1, prefix, "anchor|discovery|" + what, "%s: one discovery call" % what, d.where()):
            continue
        bad = []
        for c in d.calls:
            if c.bb == nf[0].bb or not c.args:
                continue
            if re.search(MUT, c.name) or re.search(MUT, c.func.get("full", "")):
                o = prov.origins_op(c.args[0])
                if any(x[0] == "call" and x[1].bb == nf[0].bb for x in o):
                    bad.append(c)
        # any mutable borrow of the finder (or of a field of it)
        finders = set()
        for l in range(len(d.locals)):
            if "CodeFinder" in d.local_ty(l) and not d.local_ty(l).startswith("std::option::Option"):
                finders.add(l)
        for bb in sorted(d.reachable_blocks()):
            for st in d.blocks[bb]["stmts"]:
                if st["k"] == "assign" and st["rv"]["k"] == "ref" and st["rv"].get("mut") and st["rv"]["place"]["l"] in finders:
                    bad.append(type("X", (), {"name": "&mut finder", "where": (lambda self=None, _b=bb: d.where(_b))})())
        ctx.check(not bad, prefix, "file-list-mutated|" + what,
                  "%s: the discovered file list is not modified before or between the passes (%s)" % (what, [getattr(c, "name", "?") for c in bad] or "no mutation"),
                  bad[0].where() if bad else d.where())


def _base_locals(body, prov, op):
    p = op_place(op)
    return prov.bases(p["l"]) if p else set()


def _returns_nonzero_test(cb):
    """the closure's value is `x != 0` / `x > 0` / `x >= 1` (or the mirrored forms) of something derived from its argument"""
    rvs = return_values(cb)
    if not rvs:
        return False
    for (_bb, st) in rvs:
        rv = st["rv"]
        if rv["k"] == "use":
            k, pl, neg = trace_bool(cb, rv["op"])
            if k != "bin" or neg:
                return False
            rv = pl["rv"]
        if rv["k"] != "bin":
            return False
        ka, kb = op_const(rv["a"]), op_const(rv["b"])
        if kb is not None and ka is None:
            form = (rv["op"], kb.get("int"))
        elif ka is not None and kb is None:
            form = ({"Gt": "Lt", "Lt": "Gt", "Ge": "Le", "Le": "Ge"}.get(rv["op"], rv["op"]), ka.get("int"))
        else:
            return False
        if form not in (("Gt", 0), ("Ne", 0), ("Ge", 1)):
            return False
    return True


def rule_lock_value_in_range(ctx, facts, prefix="C01-R8"):
    """The scan result is max+1 by a checked add, so it is >= 1; the other start value, the number held in the
    lock, is whatever the file says. It must be tested for 0 before it can become the counter's start: in the
    lock reader (the `Some` return lies only on the non-zero side of the test), in the driver (test / `max` with a
    constant >= 1), or by type (`NonZeroU32`)."""
    from ..common import zero_tests
    r = edit.anchor(ctx, facts, prefix, r"Context::read_cached_next_reference_id$", "lock reader")
    g = edit.anchor(ctx, facts, prefix, edit.GENERATE, "generate_code")
    if r is None or g is None:
        return
    ways = []
    if "NonZero" in (r.local_ty(0) or ""):
        ways.append("the lock value's type excludes 0 (%s)" % r.local_ty(0))
    prov = Prov(r)
    somes = [(bb, st) for (bb, st) in return_values(r) if st["rv"]["k"] == "agg" and st["rv"].get("variant") == "Some"]
    zts = [z for z in zero_tests(r, prov, lambda o: o[0] == "call" and o[1].matches(r"^serde_yaml::from_str$")) if z[1] is not None]
    if somes and zts:
        guarded = True
        for (bb, _st) in somes:
            if not any(bb not in cfg.reach(r, [z[1]]) and bb in cfg.reach(r, [z[2]]) for z in zts):
                guarded = False
        if guarded:
            ways.append("the lock reader returns `Some` only on the non-zero side of `%s` (%s)" % (zts[0][3], r.where(zts[0][0])))
    # `NonZeroU32::new(v)`: `Some` only for v != 0; the reader's `Some(..)` must come out of it
    from .c02 import _strip_nonzero
    for (bb, st) in somes:
        inner = _strip_nonzero(r, st["rv"]["ops"][0])
        if inner is not st["rv"]["ops"][0] and any(o[0] == "call" and o[1].matches(r"^serde_yaml::from_str$") for o in prov.origins_op(inner)):
            ways.append("the lock reader passes the parsed value through `NonZero::new` (%s)" % r.where(bb))
    gp = Prov(g)
    for c in g.calls_to(r"atomic::Atomic::<u32>::new$"):
        for z in zero_tests(g, gp, lambda o: o == ("param", 1)):
            if z[1] is not None and c.bb not in cfg.reach(g, [z[1]]):
                ways.append("the driver tests the lock value with `%s` before using it (%s)" % (z[3], g.where(z[0])))
        for o in gp.origins_op(c.args[0]):
            if o[0] == "call" and o[1].matches(r"(cmp::max|Ord>::max|::max)$") and len(o[1].args) == 2:
                ks = [op_const(a) for a in o[1].args]
                if any(k is not None and (k.get("int") or 0) >= 1 for k in ks):
                    ways.append("the driver raises the start value to a constant >= 1 with `max` (%s)" % o[1].where())
    # ... or where the reader's result is stored into the context (`Context::new`): a test of the value there, or
    # `.filter(|v| *v != 0)` on the Option
    for cn in facts.find(r"config::context::Context::new$"):
        cp = Prov(cn)
        from_reader = lambda o: o[0] == "call" and o[1].matches(r"Context::read_cached_next_reference_id$")
        for z in zero_tests(cn, cp, from_reader):
            if z[1] is not None:
                ways.append("Context::new tests the value read from the lock with `%s` (%s)" % (z[3], cn.where(z[0])))
        for c in cn.calls_to(r"Option::<u32>::filter$|Option::<.*>::filter$"):
            if not any(from_reader(o) for o in cp.origins_op(c.args[0])):
                continue
            p_ = op_place(c.args[1]) if len(c.args) > 1 else None
            d_ = single_def(cn, p_["l"]) if p_ else None
            cb = facts.body(d_[2]["rv"].get("def")) if d_ and d_[1] == "assign" and d_[2]["rv"]["k"] == "agg" else None
            if cb is not None and (any(z[1] is not None for z in zero_tests(cb, Prov(cb), lambda o: o[0] in ("param", "upvar"))) or _returns_nonzero_test(cb)):
                ways.append("Context::new keeps the lock value only if it is non-zero (`.filter(..)`, %s)" % c.where())
    ctx.check(bool(ways), prefix, "lock-value-zero", "a lock holding `next_reference_id: 0` cannot make the run insert ID 0: %s" %
              ("; ".join(ways) if ways else "found no test of the parsed value against 0 in the lock reader or the driver, and its type admits 0"),
              r.where())


def run(ctx):
    facts = ctx.bin
    rule_ids_from_counter(ctx, facts)
    rule_one_counter(ctx, facts)
    rule_start_value(ctx, facts)
    rule_scan_map(ctx, facts)
    rule_scan_reduce(ctx, facts)
    rule_checked_arithmetic(ctx, facts)
    rule_same_inputs(ctx, facts)
    rule_lock_value_in_range(ctx, facts)
    from .finder import rule_parse_complete
    rule_parse_complete(ctx, facts, "C01-R7")
    rule_file_list_immutable(ctx, facts, "C01-R7")
    from .entry import rule_entry_record
    rule_entry_record(ctx, facts, "C01-R2")
    # "recognised" means the configured macros: an ID on a statement that the filter wrongly rejects is invisible to
    # the scan and is issued again (premises shared with C10/C11)
    from . import finder as _finder
    from .confimm import rule_config_as_loaded
    from . import gram as _gram
    _gram.recognition_premises(ctx, ctx.grammar, "C01-G")
    # "every ID already carried": which text counts as carrying an ID is C12's accept / reject boundary (a stricter
    # extraction regex makes an existing ID invisible to the scan and it is issued again)
    from . import c12 as _c12
    from .c03 import _Only as _Only03
    from .c06 import _run_as as _run_as06
    from . import c13 as _c13
    _run_as06(_c13, _Only03(ctx, "C01-R9", ("key-constant", "key-source", "key-compare", "key-text", "value-parse", "value-text", "value-layout")), ctx)
    _run_as06(_c12, _Only03(ctx, "C01-R9", ("regex-language", "regex-anchor", "regex-groups", "regex-group-span", "regex-use", "haystack", "parse-u32", "group-1", "some-payload", "anchor|")), ctx)
    _finder.rule_macro_filter(ctx, facts, "C01-R7")
    _finder.rule_filter_before_entry(ctx, facts, "C01-R7")
    rule_config_as_loaded(ctx, facts, "C01-R7")
    ctx.assume("the lock, when used, is ahead of every ID in the tree (statement's precondition)")
    ctx.assume("files do not change between the scanning pass and the insertion pass of one run")
    return {
        "explanation": "Allocator data-flow rules on rustc MIR: provenance of the ID rendered into each token (atomic RMW on the "
                       "shared counter), of the counter's start value (lock value or max+1 of the scan), structure of the max "
                       "fold in map/reduce including the set of guards that control it, and an audit that every u32 arithmetic "
                       "step an ID goes through is a checked idiom whose failure arm ends in an error.",
        "trusted": ["rustc MIR", "std::sync::atomic semantics", "u32::checked_add contract"],
    }
