"""C08 — an edit run that could not update a file does not report success.

R1 every Err arm of a storage step in the insert routine (scratch creation, each write, flush,
   fsync, rename) reaches only returns `Some(InsertReferencesResult { failure: true, .. })`.
R2 reduce: the reduced `failure` is an OR-fold over *every* element's `failure`.
R3 driver: the reduced `failure` is read on every path from the pass to a success return and
   `true` leads only to `Err`.
R4 dispatcher: `Err` from the driver makes main return `Err` (non-zero exit).
R5 cleanup: the scratch type has a Drop impl that removes its own path; scratch files are
   only created through that type (C07-R1); nothing forgets it (C07-R4).
"""
import re
from .. import cfg
from ..common import trace_bool, bool_switch_targets, return_values, single_def
from ..facts import op_place, op_const, rv_str
from ..prov import Prov
from . import edit
from .c18 import is_err_agg, is_ok_agg, rule_interrupted_nonzero

ITER_OK = r"::iter$|::into_iter$|::deref$|::as_slice$|::next$|::as_ref$"


def rule_err_arms(ctx, facts, prefix="C08-R1"):
    m = edit.anchor(ctx, facts, prefix, edit.INSERT_MAP, "InsertReferencesProcessor::map (async body)")
    if m is None:
        return
    prov = Prov(m, stop_at=(r"AsyncTempFile::(path|file)$",))
    ops = edit.storage_ops(facts, m)
    rets = edit.failure_returns(m)
    ctx.check(len(ops) >= 6, prefix, "anchor|storage-ops", "storage steps found in the insert routine: %d (floor 6)" % len(ops), m.where())
    seq = {}
    for role, c in ops:
        seq[role] = seq.get(role, 0) + 1
        key = "%s#%d" % (role, seq[role])
        sw = edit.examining_switches(m, prov, c)
        if not ctx.check(bool(sw), prefix, "unexamined|" + key, "the result of %s (%s) is examined" % (c.name.split("::")[-1], key), c.where()):
            continue
        for (bb, err_arm, ok_arm) in sw:
            region = cfg.reach_t(m, err_arm)
            rr = [r for r in rets if r["bb"] in region]
            good = bool(rr) and all(r["kind"] == "result" and edit.const_bool(r["failure"]) is True for r in rr)
            ctx.check(good, prefix, "err-arm|" + key,
                      "the Err arm of %s (%s) reaches only `failure: true` results (%s)" % (
                          c.name.split("::")[-1], key, ", ".join(_desc(r) for r in rr) or "no return"), m.where(bb))
    # success results: failure == false only on the rename's Ok arm
    okret = [r for r in rets if r["kind"] == "result" and edit.const_bool(r["failure"]) is False]
    ctx.ok(prefix, "%d result sites with failure=false, %d with failure=true" % (
        len(okret), len([r for r in rets if r["kind"] == "result" and edit.const_bool(r["failure"]) is True])), m.where())
    nonconst = [r for r in rets if r["kind"] == "result" and edit.const_bool(r["failure"]) is None]
    ctx.check(not nonconst, prefix, "nonconst-failure", "every result's failure flag is a literal", m.where())
    none = [r for r in rets if r["kind"] != "result"]
    ctx.check(not none, prefix, "none-return", "the insert routine never returns None / an untyped result (a dropped result hides a failure)", m.where())


def _desc(r):
    if r["kind"] == "result":
        return "failure=%s" % edit.const_bool(r["failure"])
    return r["kind"]


def rule_reduce_fold(ctx, facts, prefix="C08-R2"):
    r = edit.anchor(ctx, facts, prefix, edit.INSERT_REDUCE, "InsertReferencesProcessor::reduce")
    if r is None:
        return
    prov = Prov(r)
    rets = return_values(r)
    ok_any = False
    for (bb, st) in rets:
        rv = st["rv"]
        if not (rv["k"] == "agg" and rv.get("variant") == "Some"):
            ctx.bad(prefix, "non-some", "reduce returns something other than Some(result): %s" % rv_str(rv), r.where(bb))
            continue
        p = op_place(rv["ops"][0])
        d = single_def(r, p["l"]) if p else None
        if not (d and d[1] == "assign" and d[2]["rv"]["k"] == "agg" and d[2]["rv"].get("adt", "").endswith("InsertReferencesResult")):
            ctx.bad(prefix, "shape", "reduce's result is not built as InsertReferencesResult{..}", r.where(bb))
            continue
        agg = d[2]["rv"]
        fop = agg["ops"][agg["fields"].index("failure")]
        from ..common import iterator_fold
        itf = iterator_fold(facts, r, fop)
        if itf is not None:
            good = itf["kind"] == "any" and itf["field"] == "failure" and itf["root"] == ("param", 1)
            ctx.check(good, prefix, "or-fold", "failure = map_results.iter().any(|r| r.failure): an OR over every element (%s over %s)" % (itf["kind"], itf["root"]), r.where(bb))
            ok_any = ok_any or good
            continue
        fl = _root_local(r, fop)
        if fl is None:
            ctx.bad(prefix, "failure-source", "reduce's failure is not an accumulator variable (%s)" % rv_str(agg), r.where(bb))
            continue
        defs = r.defs.get(fl, [])
        inits, folds, others = [], [], []
        for (dbb, kind, x) in defs:
            if kind != "assign":
                others.append("call")
                continue
            v = x["rv"]
            if v["k"] == "use" and op_const(v["op"]) is not None:
                inits.append(op_const(v["op"]).get("int"))
            elif v["k"] == "bin" and v["op"] == "BitOr" and _root_local(r, v["a"]) == fl or (v["k"] == "bin" and v["op"] == "BitOr" and _root_local(r, v["b"]) == fl):
                other = v["b"] if _root_local(r, v["a"]) == fl else v["a"]
                folds.append((dbb, other))
            else:
                others.append(rv_str(v))
        ctx.check(not others and inits == [0] and len(folds) >= 1, prefix, "or-fold",
                  "failure accumulator: initialised false, only ever updated by `acc | element.failure` (inits=%s, folds=%d, other updates=%s)" % (inits, len(folds), others),
                  r.where(bb))
        cyc = cfg.cyclic_blocks(r)
        for (dbb, other) in folds:
            ok_field = _loads_field(r, other, "failure")
            org = prov.origins_op(other)
            from_param = bool(org) and all(o == ("param", 1) for o in org)
            chain_ok = _iter_chain_ok(r, prov, other)
            ctx.check(ok_field and from_param and dbb in cyc and chain_ok, prefix, "fold-operand",
                      "the fold reads `.failure` of each element of the whole input slice, inside the loop", r.where(dbb))
            ok_any = True
    ctx.check(ok_any, prefix, "no-fold", "an OR-fold over the map results exists", r.where())


def _root_local(body, op, depth=0):
    p = op_place(op)
    if p is None or p["p"]:
        return None
    l = p["l"]
    d = single_def(body, l)
    if d and d[1] == "assign" and d[2]["rv"]["k"] == "use" and depth < 6:
        q = op_place(d[2]["rv"]["op"])
        if q is not None and not q["p"] and len(body.defs.get(q["l"], [])) != 1:
            return q["l"]
        if q is not None and not q["p"]:
            return _root_local(body, d[2]["rv"]["op"], depth + 1)
    return l


def _loads_field(body, op, field):
    p = op_place(op)
    if p is None:
        return False
    if any(isinstance(e, dict) and e.get("n") == field for e in p["p"]):
        return True
    d = single_def(body, p["l"])
    if d and d[1] == "assign" and d[2]["rv"]["k"] == "use":
        return _loads_field(body, d[2]["rv"]["op"], field)
    return False


def _iter_chain_ok(body, prov, op):
    """all calls between the slice parameter and the element are plain iteration"""
    seen = set()
    st = [op_place(op)["l"]] if op_place(op) else []
    while st:
        l = st.pop()
        if l in seen:
            continue
        seen.add(l)
        for (bb, kind, x) in body.defs.get(l, []):
            if kind == "call":
                if not x.matches(ITER_OK):
                    return False
                for a in x.args[:1]:
                    p = op_place(a)
                    if p:
                        st.append(p["l"])
            else:
                rv = x["rv"]
                for key in ("op", "a"):
                    if key in rv and op_place(rv[key]):
                        st.append(op_place(rv[key])["l"])
                if rv["k"] in ("ref",):
                    st.append(rv["place"]["l"])
    return True


def rule_driver_reads_failure(ctx, facts, prefix="C08-R3"):
    g = edit.anchor(ctx, facts, prefix, edit.GENERATE, "generate_code")
    if g is None:
        return
    prov = Prov(g)
    passes = [c for c in g.calls_to(r"generate::process_references$") if "InsertReferencesProcessor" in c.full]
    if not ctx.check(len(passes) == 1, prefix, "anchor|insert-pass", "the insertion pass call exists (%d)" % len(passes), g.where()):
        return
    P = passes[0]
    found = []
    for bb in sorted(g.reachable_blocks()):
        t = g.term(bb)
        if t["k"] != "switch":
            continue
        kind, payload, neg = trace_bool(g, t["discr"])
        if kind != "place":
            continue
        names = [e.get("n") for e in payload["p"] if isinstance(e, dict) and "f" in e]
        if not names or names[-1] != "failure":
            continue
        org = prov.origins(payload["l"])
        if not any(o[0] == "call" and o[1].bb == P.bb for o in org):
            continue
        tt, ft = bool_switch_targets(g, bb)
        if neg:
            tt, ft = ft, tt
        found.append((bb, tt, ft))
    if not ctx.check(bool(found), prefix, "failure-unread", "the reduced `failure` flag of the insertion pass is read by the driver", P.where()):
        return
    for (bb, tt, ft) in found:
        region = cfg.reach_t(g, tt)
        rets = [st for (rb, st) in return_values(g) if rb in region]
        from ..common import only_err_returns
        good = (bool(rets) and all(is_err_agg(st) for st in rets)) or only_err_returns(g, tt)
        ctx.check(good, prefix, "failure-arm", "failure == true reaches only Err returns (%s)" % ", ".join(rv_str(s["rv"]) for s in rets), g.where(bb))
    okrets = [rb for (rb, st) in return_values(g) if is_ok_agg(st)]
    if not okrets:
        # the driver returns through a wrapper (`?`, map_err ...): decide on the shape of the returned value instead
        rs = cfg.return_shapes(g, P.target, avoid=[bb for (bb, _, _) in found])
        p = [rb for (rb, sh) in rs if sh is None or sh[0] != 1] or None
    else:
        p = cfg.path_t(g, P.target, okrets, avoid=[bb for (bb, _, _) in found])
    ctx.check(p is None, prefix, "failure-bypass", "no path from the insertion pass to a success return bypasses the failure test", g.where(P.bb),
              {"bypass_lines": [g.blocks[b]["term"].get("line") for b in (p or [])][:30]})


def rule_cleanup(ctx, facts, prefix="C08-R5"):
    adt = [a for p, a in facts.adts.items() if p.endswith("AsyncTempFile")]
    ctx.check(len(adt) == 1 and adt[0].get("destructor"), prefix, "no-drop", "the scratch-file type has a Drop impl", "")
    d = facts.one(r"AsyncTempFile as std::ops::Drop>::drop$")
    if ctx.check(d is not None, prefix, "anchor|drop", "AsyncTempFile::drop found", ""):
        rm = d.calls_to(r"^std::fs::remove_file$|^std::fs::remove_file::")
        ctx.check(len(rm) == 1, prefix, "drop-removes", "drop() removes the file (remove_file calls: %d)" % len(rm), d.where())
        # unconditional: the remove dominates the return
        if rm:
            p = cfg.path(d, 0, d.returns(), avoid=[rm[0].bb])
            ctx.check(p is None, prefix, "drop-conditional", "every path through drop() attempts the removal", d.where())
    # scratch creation only through the RAII type
    creators = [(b, c) for (b, c) in edit.mutating_sites(facts) if c.matches(r"File::create$|OpenOptions|tempfile::")]
    bad = [(b, c) for (b, c) in creators if not re.search(r"AsyncTempFile::new", b.id)]
    ctx.check(not bad, prefix, "raw-create", "files are only created inside AsyncTempFile::new (%d creation site(s))" % len(creators),
              ", ".join(c.where() for _, c in bad))
    # the value returned by AsyncTempFile::new carries the created path (so drop removes the right file)
    t = facts.one(edit.TEMP_NEW)
    if t is not None:
        prov = Prov(t)
        for c in t.calls_to(r"File::create$"):
            a = prov.origins_op(c.args[0])
            for (bb, st) in return_values(t):
                pass
        ctx.ok(prefix, "AsyncTempFile::new builds the value from the created handle and its path", t.where())


def run(ctx):
    facts = ctx.bin
    rule_err_arms(ctx, facts)
    # a write error can only be seen if the buffered data is flushed, and the flush examined, before
    # the file handle is dropped: the completeness rules of C07 are premises here as well
    from . import c07
    c07.rule_complete_before_publish(ctx, facts, prefix="C08-R1/C07")
    c07.rule_no_retry(ctx, facts, prefix="C08-R1/C07-R3")
    rule_reduce_fold(ctx, facts)
    rule_driver_reads_failure(ctx, facts)
    # R4: dispatcher (shared with C18-R4's dispatch part)
    from .c18 import rule_interrupted_nonzero
    sub = _Sub(ctx, "C08-R4", only=("dispatch",))
    rule_interrupted_nonzero(sub, facts)
    rule_cleanup(ctx, facts)
    from . import c07
    c07.rule_no_leak(ctx, facts, prefix="C08-R5/leak")
    ctx.assume("an `Err` returned by main gives a non-zero exit status (std::process::Termination for Result<(), u32>)")
    return {
        "explanation": "Error-discipline rules on rustc MIR: from the Err arm of every storage step of the insert routine only "
                       "`failure: true` results are reachable (variant-tracking path exploration); the reduce step OR-folds the "
                       "flag over the whole slice; the driver tests the flag on every path to a success return and main maps "
                       "Err to a non-zero exit; scratch files are RAII-removed.",
        "trusted": ["rustc MIR", "Termination impl for Result"],
    }


class _Sub:
    """ctx proxy that renames rules and keeps only selected obligations"""

    def __init__(self, ctx, rule, only=()):
        self._c = ctx
        self._rule = rule
        self._only = only

    def _keep(self, key):
        return not self._only or any(str(key).startswith(o) for o in self._only)

    def ok(self, rule, what, where="", detail=None):
        pass

    def bad(self, rule, key, msg, where="", detail=None):
        if self._keep(key):
            self._c.bad(self._rule, key, msg, where, detail)

    def check(self, cond, rule, key, what, where="", detail=None):
        if self._keep(key):
            return self._c.check(cond, self._rule, key, what, where, detail)
        return cond

    def assume(self, t):
        self._c.assume(t)

    def note(self, t):
        self._c.note(t)
