"""Rules on the Rust finder's macro filter and pair walk, shared by C10, C11, C13, C17."""
import re
from .. import cfg
from ..common import (assignments_to, tuple_field_src, call_chain, trace_bool, bool_switch_targets, enum_switch, return_values, single_def, loop_containing)
from ..facts import op_place, op_const, rv_str
from ..fmtdec import template_of_call
from ..prov import Prov

FIND = r"rust_log_ref_finder::find$"
MOI = r"rust_log_ref_finder::macro_of_interest$"


def rule_macro_filter(ctx, facts, prefix):
    """macro_of_interest = ∃ configured macro: name == m.name  ∨  name == m.module + "::" + m.name
    (whole-string equality, all configured macros considered). Decided as a decision table of the
    loop body over the atoms B (bare comparison) and Q (qualified comparison), so `==`/`!=`, arm
    order, early returns vs a found-flag are all the same to the rule."""
    from .. import dte
    m = facts.one(MOI)
    if not ctx.check(m is not None, prefix, "anchor|macro_of_interest", "macro filter found", ""):
        return
    nexts = m.calls_to(r"Iterator>::next$")
    if not ctx.check(len(nexts) == 1, prefix, "filter-loop", "one loop over the configured macros (%d)" % len(nexts), m.where()):
        return
    nx = nexts[0]
    chain, root = call_chain(m, nx.args[0])
    names = [c.name.split("::")[-1] for c in chain]
    src_ok = root == ("param", 2) and all(n in ("into_iter", "iter", "deref") for n in names)
    ctx.check(src_ok, prefix, "filter-source", "the loop visits every entry of config.rust.log_macros (chain %s)" % names, nx.where())
    others = [c for c in m.calls if c.matches(r"::(starts_with|ends_with|contains|find|rfind|matches|eq_ignore_ascii_case|to_lowercase|to_uppercase|to_ascii_lowercase|trim\w*|strip_\w+|split\w*|rsplit\w*)$")]
    ctx.check(not others, prefix, "filter-fuzzy", "the filter uses no prefix/suffix/substring/case-folding test (%s)" % ([c.name for c in others] or "none"), m.where())
    # the qualified form's template
    for x in m.calls_to(r"fmt::Arguments::<.*>::new"):
        t = template_of_call(x)
        shape = [(k, v if k == "lit" else None) for k, v in (t or [])]
        ctx.check(shape == [("arg", None), ("lit", "::"), ("arg", None)], prefix, "filter-qualified-template", "the qualified form is `{}::{}` (%s)" % t, x.where())
    disp = m.calls_to(r"Argument::<.*>::new_display$")
    if disp:
        fields = [_last_field(m, tuple_field_src(m, d.args[0])) for d in disp]
        ctx.check(fields == ["module", "name"], prefix, "filter-qualified-order", "the qualified form is module then name (%s)" % fields, disp[0].where())

    kinds = set()

    def call_hook(c):
        if not c.matches(r"PartialEq.*::(eq|ne)$|::eq$|::ne$") or len(c.args) < 2:
            return None
        sides = [call_chain(m, a) for a in c.args[:2]]
        roots = [r for _, r in sides]
        name_side = [i for i, r in enumerate(roots) if r == ("param", 1) and not [x for x in sides[i][0] if not x.matches(r"::as_str$|::deref$")]]
        if len(name_side) != 1:
            return ("?cmp@%s" % c.line, "bool", True)
        o = sides[1 - name_side[0]]
        positive = not c.matches(r"::ne$")
        if any(x.matches(r"fmt::format$") for x in o[0]):
            kinds.add("qualified")
            return ("Q", "bool", positive)
        f = _last_field(m, c.args[1 - name_side[0]])
        if f == "name":
            kinds.add("bare")
            return ("B", "bool", positive)
        return ("?field:%s" % f, "bool", positive)

    es = enum_switch(m, nx.target) if nx.target is not None else None
    if not ctx.check(es is not None, prefix, "filter-loop-shape", "loop shape recognised", nx.where()):
        return
    some_arm, none_arm = es[1].get(1, es[2]), es[1].get(0, es[2])

    # result sites: constant assignments that end up in _0 (directly or through a found-flag)
    def ret_events(bb, x):
        if isinstance(x, dict) and x.get("k") == "assign" and not x["dst"]["p"] and x["rv"]["k"] == "use":
            c = op_const(x["rv"]["op"])
            if c is not None and c.get("ty") == "bool" and (x["dst"]["l"] == 0 or x["dst"]["l"] in flag_locals):
                return "set:%s" % bool(c["int"])
        return None

    flag_locals = set()
    for (bb, st) in assignments_to(m, 0):
        if st["rv"]["k"] == "use":
            p = op_place(st["rv"]["op"])
            if p is not None and not p["p"]:
                flag_locals.add(p["l"])
                d = single_def(m, p["l"])
                # one more copy level
                if d and d[1] == "assign" and d[2]["rv"]["k"] == "use" and op_place(d[2]["rv"]["op"]):
                    flag_locals.add(op_place(d[2]["rv"]["op"])["l"])
    rows = dte.extract(m, some_arm, {nx.bb}, dte.Atoms([], call_hook), events=ret_events)
    table = {}
    opaque = set()
    for asg, evs, out in rows:
        for k in asg:
            if k not in ("B", "Q"):
                opaque.add(k)
        for bv in (True, False):
            for qv in (True, False):
                if asg.get("B", bv) == bv and asg.get("Q", qv) == qv:
                    table.setdefault((bv, qv), set()).add(tuple(e for e in evs if e.startswith("set:")))
    ctx.check(not opaque, prefix, "filter-extra-condition", "nothing but the two equalities decides (%s)" % (sorted(opaque) or "none"), m.where())
    ctx.check(kinds == {"bare", "qualified"}, prefix, "filter-forms", "both path forms are accepted: bare and module-qualified (%s)" % sorted(kinds), m.where())
    for key in ((True, True), (True, False), (False, True)):
        got = table.get(key, set())
        ctx.check(got == {("set:True",)}, prefix, "filter-accept|B=%s,Q=%s" % key, "bare match=%s, qualified match=%s ⇒ true (found %s)" % (key[0], key[1], sorted(got)), m.where())
    got = table.get((False, False), set())
    ctx.check(got == {()}, prefix, "filter-early-false", "no match with this configured macro ⇒ go on to the next one, nothing decided yet (found %s)" % sorted(got), m.where())
    # after the loop: false
    rows2 = dte.extract(m, none_arm, set(), dte.Atoms([], call_hook), events=ret_events)
    outs = {tuple(e for e in evs if e.startswith("set:")) for _, evs, _ in rows2}
    init_false = any(op_const(d[2]["rv"].get("op")) is not None and op_const(d[2]["rv"]["op"]).get("int") == 0
                     for l in flag_locals for d in m.defs.get(l, []) if d[1] == "assign" and d[2]["rv"]["k"] == "use" and d[0] not in loop_containing(m, nx.bb))
    ctx.check(outs == {("set:False",)} or (outs == {()} and init_false), prefix, "filter-false-after-loop",
              "when every configured macro was compared without a match the result is false (%s)" % sorted(outs), m.where())
    # a match ends the search with `true`: from the set:True site the loop head is not reachable or only via break
    ctx.ok(prefix, "decision table of the macro filter extracted: %d paths" % len(rows), m.where())


def _last_field(body, op, depth=0):
    p = op_place(op)
    if p is None or depth > 10:
        return None
    names = [e.get("n") for e in p["p"] if isinstance(e, dict) and "f" in e]
    if names:
        return names[-1]
    d = single_def(body, p["l"])
    if d is None:
        return None
    if d[1] == "call":
        if d[2].matches(r"::as_str$|::deref$|::as_ref$") and d[2].args:
            return _last_field(body, d[2].args[0], depth + 1)
        return None
    rv = d[2]["rv"]
    if rv["k"] == "use":
        return _last_field(body, rv["op"], depth + 1)
    if rv["k"] == "ref":
        names = [e.get("n") for e in rv["place"]["p"] if isinstance(e, dict) and "f" in e]
        if names:
            return names[-1]
        return _last_field(body, {"copy": {"l": rv["place"]["l"], "p": []}}, depth + 1)
    if rv["k"] == "agg" and rv["agg"] == "tuple":
        return None
    return None


def pair_walk(ctx, facts, prefix):
    """returns (find body, head next() call of the outer pair loop, push call) or None"""
    f = facts.one(FIND)
    if not ctx.check(f is not None, prefix, "anchor|find", "the Rust finder found", ""):
        return None
    push = [c for c in f.calls if re.search(r"Vec::<.*LogRefEntry>::push$", c.full)]
    if not ctx.check(len(push) == 1, prefix, "anchor|push", "one push of a LogRefEntry (%d)" % len(push), f.where()):
        return None
    P = push[0]
    dom = cfg.dominators(f)
    loop = loop_containing(f, P.bb)
    heads = [c for c in f.calls_to(r"Iterator>::next$") if c.bb in loop and "Pairs" in c.full and c.bb in dom.get(P.bb, ())]
    heads = sorted(heads, key=lambda h: len(dom[h.bb]))
    if not ctx.check(len(heads) >= 1, prefix, "anchor|pair-loop", "the loop over the file's pairs found", f.where()):
        return None
    return f, heads[0], P


def rule_filter_before_entry(ctx, facts, prefix):
    pw = pair_walk(ctx, facts, prefix)
    if pw is None:
        return
    f, H, P = pw
    moi = f.calls_to(MOI)
    if not ctx.check(len(moi) == 1, prefix, "filter-call", "the macro filter is called once per statement (%d)" % len(moi), f.where()):
        return
    M = moi[0]
    p = cfg.path(f, H.target, [P.bb], avoid=[M.bb, H.bb])
    ctx.check(p is None, prefix, "filter-bypass", "no entry is built for a statement the macro filter has not accepted", M.where())
    for bb in sorted(f.reachable_blocks()):
        t = f.term(bb)
        if t["k"] == "switch":
            k, pl, neg = trace_bool(f, t["discr"])
            if k == "call" and pl.bb == M.bb:
                tt, ft = bool_switch_targets(f, bb)
                if neg:
                    tt, ft = ft, tt
                ctx.check(P.bb not in cfg.reach(f, [ft], avoid=[H.bb]), prefix, "filter-reject", "a rejected macro yields no entry", f.where(bb))
                ctx.check(P.bb in cfg.reach(f, [tt], avoid=[H.bb]), prefix, "filter-accept", "an accepted macro proceeds to entry construction", f.where(bb))
    # the name given to the filter is the macro_name pair's text, unmodified
    ch, root = call_chain(f, M.args[0])
    names = [c.name.split("::")[-1] for c in ch]
    ok = "as_str" in names and not any(n in ("trim", "to_lowercase", "replace", "split", "rsplit", "trim_start", "trim_end") for n in names[:names.index("as_str") + 1])
    ctx.check(ok, prefix, "filter-name-source", "the filtered name is the macro_name pair's text (chain %s)" % names[:5], M.where())


def handled_rules(body, facts, pair_pred=None):
    """for every `match pair.as_rule()` switch: (bb, set(variant names with explicit arms), otherwise target)"""
    rule_adt = None
    for p, a in facts.adts.items():
        if p.endswith("rust_parser::Rule"):
            rule_adt = a
    out = []
    if rule_adt is None:
        return out
    vnames = [v["name"] for v in rule_adt["variants"]]
    for bb in sorted(body.reachable_blocks()):
        es = enum_switch(body, bb)
        if es is None or es[0]["p"]:
            continue
        d = single_def(body, es[0]["l"])
        if d and d[1] == "call" and d[2].matches(r"Pair::<.*>::as_rule$"):
            arms = {vnames[v]: tgt for v, tgt in es[1].items() if v < len(vnames)}
            out.append((bb, arms, es[2], d[2]))
    return out


def rule_parse_complete(ctx, facts, prefix):
    """every statement of a file is seen: the whole-file rule is parsed without a pest call limit
    (a limit makes `parse` fail on large files, and a failed parse is an empty result — the file's
    statements and their IDs silently disappear from every pass)"""
    n = 0
    bad = []
    for b in facts.non_test_bodies():
        for c in b.calls:
            n += 1
            if c.matches(r"^pest::(set_call_limit|parser_state::set_call_limit)$|pest::.*set_call_limit$"):
                bad.append(c)
    ctx.check(not bad, prefix, "parser-call-limit", "no pest call limit is configured (%s)" % ([c.where() for c in bad] or "none among %d call sites" % n),
              bad[0].where() if bad else "")
    f = facts.one(FIND)
    if f is not None:
        pc = [c for c in f.calls if c.matches(r"::parse$") and ("RustParser" in c.func.get("full", "") or "pest::Parser" in (c.declared or ""))]
        ctx.check(len(pc) == 1, prefix, "one-parse", "each file's text is parsed once, as a whole (%d parse calls)" % len(pc), f.where())
        if len(pc) == 1:
            # every result of the finder comes out of that parse: a return reached without it (a textual
            # pre-filter, a size cut-off ...) makes the statements of the skipped files invisible to every
            # pass. The only bypass accepted is one decided by an emptiness test (nothing to find).
            P = pc[0]
            rets = [bb for bb in f.reachable_blocks() if f.term(bb)["k"] == "return"]
            pre = cfg.reach(f, [0], avoid=[P.bb])
            bad_sw = []
            if any(r in pre for r in rets):
                for bb in sorted(pre):
                    t = f.term(bb)
                    if t["k"] != "switch":
                        continue
                    outs = set(tgt for _v, tgt in t["arms"]) | {t["otherwise"]}
                    esc = [o for o in outs if any(r in cfg.reach(f, [o], avoid=[P.bb]) for r in rets)]
                    stay = [o for o in outs if P.bb in cfg.reach(f, [o])]
                    if not esc or len(esc) == len(outs) and not stay:
                        continue
                    k, pl, _neg = trace_bool(f, t["discr"])
                    if k == "call" and pl.matches(r"::is_empty$"):
                        continue
                    bad_sw.append(bb)
                if not bad_sw and 0 in pre and any(r in pre for r in rets) and not any(f.term(bb)["k"] == "switch" for bb in pre):
                    bad_sw.append(0)
            ctx.check(not bad_sw, prefix, "parse-always", "no result of the finder is produced without parsing the file's text (bypass decided at %s)" % ([f.where(b) for b in bad_sw] or "none"),
                      f.where(bad_sw[0]) if bad_sw else f.where())


def _accesses(f):
    """local -> [(bb, kind, whole)] with kind in def / mutref / use / move / drop"""
    acc = {}

    def note(l, bb, kind, whole=False):
        acc.setdefault(l, []).append((bb, kind, whole))

    def opn(o, bb):
        p = op_place(o)
        if p is not None:
            note(p["l"], bb, "move" if "move" in o and not p["p"] else "use")
    for bb in f.reachable_blocks():
        blk = f.blocks[bb]
        for st in blk["stmts"]:
            if st["k"] != "assign":
                note(st["dst"]["l"], bb, "def")
                continue
            dst, rv = st["dst"], st["rv"]
            note(dst["l"], bb, "def", not dst["p"])
            k = rv["k"]
            ops = [rv["op"]] if k in ("use", "cast", "repeat") else [rv["a"], rv["b"]] if k == "bin" else [rv["a"]] if k == "un" else rv["ops"] if k == "agg" else []
            for o in ops:
                opn(o, bb)
            if k in ("ref", "rawptr"):
                p = rv["place"]
                direct = "*" not in p["p"]
                note(p["l"], bb, "mutref" if (rv.get("mut") or k == "rawptr") and direct else "use")
            if k == "discr":
                note(rv["place"]["l"], bb, "use")
        t = blk["term"]
        if t["k"] == "call":
            for a in t["args"]:
                opn(a, bb)
            if "indirect" in t["func"]:
                opn(t["func"]["indirect"], bb)
            note(t["dst"]["l"], bb, "def", not t["dst"]["p"])
        elif t["k"] == "switch":
            opn(t["discr"], bb)
        elif t["k"] == "drop":
            note(t["place"]["l"], bb, "drop")
        elif t["k"] == "yield":
            opn(t["value"], bb)
    return acc


def rule_statement_local_state(ctx, facts, prefix):
    """each statement is decided by itself: inside the loop over the file's statements nothing that was
    initialised before the loop is modified, except the result list and the loop's own iterator. A buffer
    or flag that lives across iterations lets one statement's key-values / directive / target leak into
    the decision for the next one (unless it is cleared at the top of every iteration)."""
    pw = pair_walk(ctx, facts, prefix)
    if pw is None:
        return
    f, H, P = pw
    L = loop_containing(f, H.bb)
    dom = cfg.dominators(f)
    acc = _accesses(f)
    it = op_place(H.args[0])
    iter_locals = set()
    if it is not None:
        pr = Prov(f)
        iter_locals = pr.bases(it["l"])
    res = op_place(P.args[0])
    res_locals = Prov(f).bases(res["l"]) if res is not None else set()
    carried = []
    n = 0
    for l, a in sorted(acc.items()):
        inside = [x for x in a if x[0] in L]
        mut_in = [x for x in inside if x[1] in ("def", "mutref")]
        def_out = [x for x in a if x[0] not in L and x[1] in ("def", "mutref")] or (1 <= l <= f.arg_count)
        if not (mut_in and def_out):
            continue
        n += 1
        if l in iter_locals or l in res_locals:
            continue
        # re-initialised at the top of every iteration: a whole assignment, or a clear() through a fresh &mut,
        # in a block that dominates every other in-loop access
        reinit = []
        for (bb, kind, whole) in inside:
            if kind == "def" and whole:
                reinit.append(bb)
            elif kind == "mutref":
                for c in f.calls:
                    if c.bb == bb and c.matches(r"::(clear)$"):
                        reinit.append(bb)
        ok = any(all(r in dom.get(x[0], ()) for x in inside) for r in reinit)
        if not ok:
            carried.append(l)
    ctx.check(not carried, prefix, "statement-local-state",
              "inside the statement loop only the result list and the loop iterator outlive an iteration (carried: %s; %d loop-crossing locals examined)"
              % ([(f.locals[l].get("name") or "_%d" % l) for l in carried] or "none", n),
              f.where(H.bb))


def entry_args(facts, f=None):
    """{parameter name of LogRefEntry::new: operand} at the finder's single construction site (None when the
    site or the constructor is not found). Lets rules talk about `insertion_prefix`, `reference`, ... by role
    instead of by the name of a local variable in `find`."""
    f = f or facts.one(FIND)
    newf = facts.one(r"code_parser::LogRefEntry::new$")
    if f is None or newf is None:
        return None
    cs = f.calls_to(r"code_parser::LogRefEntry::new$")
    if len(cs) != 1:
        return None
    names = [newf.locals[i].get("name") for i in range(1, newf.arg_count + 1)]
    if len(names) != len(cs[0].args):
        return None
    out = dict(zip(names, cs[0].args))
    out["__call__"] = cs[0]
    return out
