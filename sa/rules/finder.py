"""Rules on the Rust finder's macro filter and pair walk, shared by C10, C11, C13, C17."""
import re
from .. import cfg
from ..common import (tuple_field_src, call_chain, trace_bool, bool_switch_targets, enum_switch, return_values, single_def, loop_containing)
from ..facts import op_place, op_const, rv_str
from ..fmtdec import template_of_call
from ..prov import Prov

FIND = r"rust_log_ref_finder::find$"
MOI = r"rust_log_ref_finder::macro_of_interest$"


def rule_macro_filter(ctx, facts, prefix):
    """macro_of_interest = ∃ configured macro: name == m.name  ∨  name == m.module + "::" + m.name
    (whole-string equality, all configured macros considered)."""
    m = facts.one(MOI)
    if not ctx.check(m is not None, prefix, "anchor|macro_of_interest", "macro filter found", ""):
        return
    nexts = m.calls_to(r"Iterator>::next$")
    if not ctx.check(len(nexts) == 1, prefix, "filter-loop", "one loop over the configured macros (%d)" % len(nexts), m.where()):
        return
    nx = nexts[0]
    chain, root = call_chain(m, nx.args[0])
    names = [c.name.split("::")[-1] for c in chain]
    src_ok = root == ("param", 2) and all(n in ("into_iter", "iter", "deref") for n in names)
    ctx.check(src_ok, prefix, "filter-source", "the loop visits every entry of config.rust.log_macros (chain %s)" % names, nx.where())
    # comparisons
    eqs = [c for c in m.calls if c.matches(r"PartialEq.*::eq$|::eq$")]
    others = [c for c in m.calls if c.matches(r"::(starts_with|ends_with|contains|find|rfind|matches|eq_ignore_ascii_case|to_lowercase|to_uppercase|trim\w*|strip_\w+)$|::ne$")]
    ctx.check(not others, prefix, "filter-fuzzy", "the filter uses no prefix/suffix/substring/case-folding test (%s)" % ([c.name for c in others] or "none"), m.where())
    kinds = set()
    for c in eqs:
        sides = [call_chain(m, a) for a in c.args[:2]]
        roots = [r for _, r in sides]
        name_side = [i for i, r in enumerate(roots) if r == ("param", 1) and not [x for x in sides[i][0] if not x.matches(r"::as_str$|::deref$")]]
        if not ctx.check(len(name_side) == 1, prefix, "filter-eq-name|%s" % c.bb, "one side of the comparison is the statement's macro name, whole", c.where()):
            continue
        o = sides[1 - name_side[0]]
        ocalls = [x.name.split("::")[-1] for x in o[0]]
        fmt = [x for x in o[0] if x.matches(r"fmt::format$")]
        if fmt:
            # qualified name: template {}::{} with (module, name)
            args = None
            for x in m.calls_to(r"fmt::Arguments::<.*>::new"):
                t = template_of_call(x)
                shape = [(k, v if k == "lit" else None) for k, v in (t or [])]
                ok = shape == [("arg", None), ("lit", "::"), ("arg", None)]
                ctx.check(ok, prefix, "filter-qualified-template", "the qualified form is `{}::{}` (%s)" % t, x.where())
            disp = m.calls_to(r"Argument::<.*>::new_display$")
            fields = []
            for d in disp:
                ch, rt = call_chain(m, d.args[0])
                fields.append(_last_field(m, tuple_field_src(m, d.args[0])))
            ctx.check(fields == ["module", "name"], prefix, "filter-qualified-order", "the qualified form is module then name (%s)" % fields, c.where())
            kinds.add("qualified")
        else:
            f = _last_field(m, c.args[1 - name_side[0]])
            ctx.check(f == "name", prefix, "filter-bare-field", "the bare form compares with the configured `name` (%s)" % f, c.where())
            kinds.add("bare")
    ctx.check(kinds == {"bare", "qualified"}, prefix, "filter-forms", "both path forms are accepted: bare and module-qualified (%s)" % sorted(kinds), m.where())
    # returns: true only on an eq's true arm; false only after the iterator is exhausted
    dom = cfg.dominators(m)
    es = enum_switch(m, nx.target) if nx.target is not None else None
    none_arm = None
    if es:
        none_arm = es[1].get(0, es[2])
    for (bb, st) in return_values(m):
        v = (op_const(st["rv"].get("op")) or {}).get("int") if st["rv"]["k"] == "use" else None
        if v == 0:
            ctx.check(none_arm is not None and none_arm in dom.get(bb, ()), prefix, "filter-early-false",
                      "`false` is returned only after every configured macro was compared", m.where(bb))
        elif v == 1:
            arms = []
            for c in eqs:
                for sb in sorted(m.reachable_blocks()):
                    t = m.term(sb)
                    if t["k"] == "switch":
                        k, pl, neg = trace_bool(m, t["discr"])
                        if k == "call" and pl.bb == c.bb:
                            tt, ft = bool_switch_targets(m, sb)
                            if neg:
                                tt, ft = ft, tt
                            arms.append(tt)
            ctx.check(any(a in dom.get(bb, ()) for a in arms), prefix, "filter-true-arm", "`true` is returned only when an equality held", m.where(bb))
        else:
            ctx.bad(prefix, "filter-odd-return", "unexpected return %s" % rv_str(st["rv"]), m.where(bb))


def _last_field(body, op, depth=0):
    p = op_place(op)
    if p is None or depth > 10:
        return None
    names = [e.get("n") for e in p["p"] if isinstance(e, dict) and "f" in e]
    if names:
        return names[-1]
    d = single_def(body, p["l"])
    if d is None:
        return None
    if d[1] == "call":
        if d[2].matches(r"::as_str$|::deref$|::as_ref$") and d[2].args:
            return _last_field(body, d[2].args[0], depth + 1)
        return None
    rv = d[2]["rv"]
    if rv["k"] == "use":
        return _last_field(body, rv["op"], depth + 1)
    if rv["k"] == "ref":
        names = [e.get("n") for e in rv["place"]["p"] if isinstance(e, dict) and "f" in e]
        if names:
            return names[-1]
        return _last_field(body, {"copy": {"l": rv["place"]["l"], "p": []}}, depth + 1)
    if rv["k"] == "agg" and rv["agg"] == "tuple":
        return None
    return None


def pair_walk(ctx, facts, prefix):
    """returns (find body, head next() call of the outer pair loop, push call) or None"""
    f = facts.one(FIND)
    if not ctx.check(f is not None, prefix, "anchor|find", "the Rust finder found", ""):
        return None
    push = [c for c in f.calls if re.search(r"Vec::<.*LogRefEntry>::push$", c.full)]
    if not ctx.check(len(push) == 1, prefix, "anchor|push", "one push of a LogRefEntry (%d)" % len(push), f.where()):
        return None
    P = push[0]
    dom = cfg.dominators(f)
    loop = loop_containing(f, P.bb)
    heads = [c for c in f.calls_to(r"Iterator>::next$") if c.bb in loop and "Pairs" in c.full and c.bb in dom.get(P.bb, ())]
    heads = sorted(heads, key=lambda h: len(dom[h.bb]))
    if not ctx.check(len(heads) >= 1, prefix, "anchor|pair-loop", "the loop over the file's pairs found", f.where()):
        return None
    return f, heads[0], P


def rule_filter_before_entry(ctx, facts, prefix):
    pw = pair_walk(ctx, facts, prefix)
    if pw is None:
        return
    f, H, P = pw
    moi = f.calls_to(MOI)
    if not ctx.check(len(moi) == 1, prefix, "filter-call", "the macro filter is called once per statement (%d)" % len(moi), f.where()):
        return
    M = moi[0]
    p = cfg.path(f, H.target, [P.bb], avoid=[M.bb, H.bb])
    ctx.check(p is None, prefix, "filter-bypass", "no entry is built for a statement the macro filter has not accepted", M.where())
    for bb in sorted(f.reachable_blocks()):
        t = f.term(bb)
        if t["k"] == "switch":
            k, pl, neg = trace_bool(f, t["discr"])
            if k == "call" and pl.bb == M.bb:
                tt, ft = bool_switch_targets(f, bb)
                if neg:
                    tt, ft = ft, tt
                ctx.check(P.bb not in cfg.reach(f, [ft], avoid=[H.bb]), prefix, "filter-reject", "a rejected macro yields no entry", f.where(bb))
                ctx.check(P.bb in cfg.reach(f, [tt], avoid=[H.bb]), prefix, "filter-accept", "an accepted macro proceeds to entry construction", f.where(bb))
    # the name given to the filter is the macro_name pair's text, unmodified
    ch, root = call_chain(f, M.args[0])
    names = [c.name.split("::")[-1] for c in ch]
    ok = "as_str" in names and not any(n in ("trim", "to_lowercase", "replace", "split", "rsplit", "trim_start", "trim_end") for n in names[:names.index("as_str") + 1])
    ctx.check(ok, prefix, "filter-name-source", "the filtered name is the macro_name pair's text (chain %s)" % names[:5], M.where())


def handled_rules(body, facts, pair_pred=None):
    """for every `match pair.as_rule()` switch: (bb, set(variant names with explicit arms), otherwise target)"""
    rule_adt = None
    for p, a in facts.adts.items():
        if p.endswith("rust_parser::Rule"):
            rule_adt = a
    out = []
    if rule_adt is None:
        return out
    vnames = [v["name"] for v in rule_adt["variants"]]
    for bb in sorted(body.reachable_blocks()):
        es = enum_switch(body, bb)
        if es is None or es[0]["p"]:
            continue
        d = single_def(body, es[0]["l"])
        if d and d[1] == "call" and d[2].matches(r"Pair::<.*>::as_rule$"):
            arms = {vnames[v]: tgt for v, tgt in es[1].items() if v < len(vnames)}
            out.append((bb, arms, es[2], d[2]))
    return out
