"""C12 — a reference counts as present exactly when the message starts with a valid token.

R1 the extraction regex (the literal given to Regex::new in extract_reference's lazy static)
   is language-equivalent to the spec `^\\[ref: ([0-9]{1,10})\\]` (DFA product with the
   program's own regex-syntax version), is start-anchored and has exactly one group.
R2 group 1 is parsed with str::parse::<u32>; Err -> None, Ok(v) -> Some(v); nothing else
   touches the value; the haystack is the parameter itself (no trimming / case folding).
R3 the only non-test call site applies it to code[span.start()..span.end()] of one span,
   in the branch that is not the structured one.
R4 every token Breadlog writes, `[ref: ` dec(N) `] ` for 0<=N<=u32::MAX, starts with a match
   of the program's regex and of the documented regex (language inclusion, exact for all N).
R5 the regex printed in the user guide accepts the inserted token.
"""
import os
import re
from .. import rx, cfg
from ..common import enum_switch, return_values, single_def
from ..facts import op_place, op_const, rv_str
from ..prov import Prov
from ..fmtdec import template_of_call

SPEC = r"^\[ref: ([0-9]{1,10})\]"
DOC_REGEX = r"\[ref: ([0-9]{1,10})\]"
EXTRACT = r"LogRefEntry::extract_reference$"


def pure_chain_root(body, op, depth=0):
    """follow only copies / refs / derefs (no calls): returns ('param', k) | ('local', l) | ('call', Call)"""
    p = op_place(op)
    if p is None:
        return ("const", None)
    l = p["l"]
    if 1 <= l <= body.arg_count and not body.defs.get(l):
        return ("param", l)
    d = single_def(body, l)
    if d is None or depth > 10:
        return ("local", l)
    if d[1] == "call":
        return ("call", d[2])
    rv = d[2]["rv"]
    if rv["k"] == "use":
        return pure_chain_root(body, rv["op"], depth + 1)
    if rv["k"] == "ref":
        return pure_chain_root(body, {"copy": {"l": rv["place"]["l"], "p": []}}, depth + 1)
    return ("local", l)


def token_template(ctx, facts, prefix):
    """pieces of the message-token template in insertable_reference_string"""
    b = facts.one(r"LogRefEntry::insertable_reference_string$")
    if not ctx.check(b is not None, prefix, "anchor|insertable_reference_string", "token renderer found", ""):
        return None, None
    tmpls = []
    for c in b.calls_to(r"fmt::Arguments::<.*>::new|Arguments::<.*>::from_str"):
        t = template_of_call(c)
        tmpls.append((c, t))
    withlit = [(c, t) for (c, t) in tmpls if t and any(k == "lit" for k, _ in t)]
    ctx.check(all(t is not None for _, t in tmpls) and len(withlit) == 1, prefix, "template-decode",
              "format templates of the token renderer decoded (%d, one with literal text)" % len(tmpls), b.where())
    if len(withlit) != 1:
        return b, None
    return b, withlit[0]


def run(ctx):
    facts = ctx.bin
    ex = facts.one(EXTRACT)
    ctx.check(ex is not None, "C12-R1", "anchor|extract_reference", "extract_reference found", "")
    lits = rx.regex_literals(facts, r"LogRefEntry::extract_reference::")
    ctx.check(len(lits) == 1 and lits[0][1] is not None and lits[0][0].matches(r"^regex::Regex::new$"), "C12-R1", "anchor|regex-literal",
              "one `Regex::new(<literal>)` builds the extraction pattern (%s)" % [l for _, l in lits],
              lits[0][0].where() if lits else "")
    prog_re = lits[0][1] if lits and lits[0][1] is not None else None
    from .entry import rule_entry_record
    rule_entry_record(ctx, facts, "C12-R3")
    from . import gram
    gram.literal_text_premises(ctx, ctx.grammar, "C12-G")
    gram.g18_message_not_key(ctx, ctx.grammar, "C12-G")
    if prog_re is not None:
        c = lits[0][0]
        e = rx.equiv(prog_re, SPEC)
        ctx.check(e.get("ok") and e.get("holds"), "C12-R1", "regex-language",
                  "extraction regex %r ≡ spec %r as anchored prefix languages%s" % (prog_re, SPEC, "" if e.get("holds") else " — distinguishing string: %r" % e.get("witness", e.get("error"))),
                  c.where(), e)
        i = rx.info(prog_re)
        ctx.check(i.get("ok") and i.get("anchored_start"), "C12-R1", "regex-anchor", "the regex is anchored at the start of the literal (`^`)", c.where(), i)
        ctx.check(i.get("ok") and i.get("explicit_captures") == 1, "C12-R1", "regex-groups", "the regex has exactly one capture group (%s)" % i.get("explicit_captures"), c.where())
        # group 1 == [0-9]{1,10}: replace the group by a fixed probe and compare languages
        inner = rx.equiv(prog_re, r"^\[ref: (?:[0-9]{1,10})\]")
        ctx.check(inner.get("holds"), "C12-R1", "regex-group-span", "group 1 spans the digits only (ASCII 0-9, 1 to 10 of them)", c.where())
    if ex is not None:
        prov = Prov(ex)
        # R2: uses of the regex
        uses = ex.calls_to(r"^regex::Regex::(captures_iter|captures|captures_at|find|find_iter|is_match|replace|shortest_match)")
        ok_use = len(uses) == 1 and uses[0].matches(r"Regex::(captures_iter|captures)$")
        ctx.check(ok_use, "C12-R2", "regex-use", "the pattern is applied once, with captures()/captures_iter() (%s)" % [u.name.split("::")[-1] for u in uses], ex.where())
        for u in uses:
            root = pure_chain_root(ex, u.args[1])
            ctx.check(root == ("param", 1), "C12-R2", "haystack", "the haystack is the literal passed in, unmodified (root: %s)" % (root,), u.where())
        parses = ex.calls_to(r"str>::parse$|::parse$")
        ctx.check(len(parses) == 1 and "parse::<u32>" in parses[0].full, "C12-R2", "parse-u32", "the captured text is parsed with str::parse::<u32> (%s)" % [p.full for p in parses], ex.where())
        for pc in parses:
            root = pure_chain_root(ex, pc.args[0])
            hops = 0
            while root[0] == "call" and root[1].args and hops < 6 and \
                    root[1].matches(r"Match::<.*>::as_str$|regex::Match::as_str$|::as_str$|Try>::branch$|Option::<.*>::(unwrap|expect)$|::deref$|::as_ref$"):
                root = pure_chain_root(ex, root[1].args[0])   # `m.as_str()`, `caps.get(1)?`, `.unwrap()`: the value is still that group
                hops += 1
            grp = root[0] == "call" and root[1].matches(r"Index<usize>>::index$|Captures::<.*>::get$|::get$") and \
                op_const(root[1].args[1]) is not None and op_const(root[1].args[1]).get("int") == 1
            ctx.check(grp, "C12-R2", "group-1", "the parsed text is capture group 1", pc.where())
        n_some = 0
        for (bb, st) in return_values(ex):
            rv = st["rv"]
            if rv["k"] == "agg" and rv.get("variant") == "Some":
                n_some += 1
                root = pure_chain_root(ex, rv["ops"][0])
                p = op_place(rv["ops"][0])
                good = False
                # payload is (parse_result as Ok).0
                cur = rv["ops"][0]
                for _ in range(6):
                    pl = op_place(cur)
                    if pl is None:
                        break
                    if pl["p"]:
                        d = single_def(ex, pl["l"])
                        good = d is not None and d[1] == "call" and d[2].matches(r"::parse$") and any(isinstance(e, dict) and e.get("n") == "Ok" for e in pl["p"])
                        break
                    d = single_def(ex, pl["l"])
                    if d is None or d[1] != "assign" or d[2]["rv"]["k"] != "use":
                        break
                    cur = d[2]["rv"]["op"]
                ctx.check(good, "C12-R2", "some-payload", "`Some(v)` returns exactly the Ok value of the parse (no cast, clamp or arithmetic)", ex.where(bb))
            elif rv["k"] == "agg" and rv.get("variant") == "None":
                pass
            elif rv["k"] == "use" and op_place(rv["op"]) is not None and not op_place(rv["op"])["p"] and \
                    (lambda d_: d_ is not None and d_[1] == "call" and d_[2].matches(r"Result::<.*>::ok$") and
                     (lambda r_: r_ and r_[0] == "call" and r_[1].matches(r"::parse$") and "parse::<u32>" in r_[1].full)(pure_chain_root(ex, d_[2].args[0]) if d_[2].args else None)
                     )(single_def(ex, op_place(rv["op"])["l"])):
                # `.and_then(|c| c[1].parse::<u32>().ok())` after desugaring: the arm's value is parse(..).ok()
                n_some += 1
                ctx.ok("C12-R2", "this arm's value is `parse::<u32>(..).ok()` (Ok(v) → Some(v), Err → None)", ex.where(bb))
            else:
                ctx.bad("C12-R2", "odd-return", "unexpected return %s" % rv_str(rv), ex.where(bb))
        # equivalent idiom: `parse::<u32>().ok()` as the function's value
        for c in ex.calls:
            if c.dst["l"] == 0 and not c.dst["p"]:
                root = pure_chain_root(ex, c.args[0]) if c.args else None
                if c.matches(r"Result::<.*>::ok$") and root and root[0] == "call" and root[1].matches(r"::parse$") and "parse::<u32>" in root[1].full:
                    n_some += 1
                    ctx.ok("C12-R2", "the function's value is `parse::<u32>(..).ok()` (Ok(v) → Some(v), Err → None)", c.where())
                elif c.matches(r"from_residual$") and "Option" in c.func.get("full", ""):
                    ctx.ok("C12-R2", "`?` on an Option propagates None (no match ⇒ no reference)", c.where())
                else:
                    ctx.bad("C12-R2", "odd-return-call|%s" % c.name.split("::")[-1], "the function's value is produced by `%s`, not by the parse" % c.name, c.where())
        ctx.check(n_some == 1, "C12-R2", "some-count", "one place produces `Some` (%d)" % n_some, ex.where())
        # parse Err -> None
        for pc in parses:
            for bb in sorted(ex.reachable_blocks()):
                es = enum_switch(ex, bb)
                if es and not es[0]["p"]:
                    d = single_def(ex, es[0]["l"])
                    if d and d[1] == "call" and d[2].bb == pc.bb:
                        err_arm = es[1].get(1, es[2])
                        region = cfg.reach_t(ex, err_arm)
                        rets = [st for (rb, st) in return_values(ex) if rb in region]
                        ctx.check(bool(rets) and all(st["rv"].get("variant") == "None" for st in rets), "C12-R2", "parse-err-none",
                                  "an out-of-range number (parse error) yields None", ex.where(bb))
    # R3 call sites
    sites = []
    for b in facts.non_test_bodies():
        for c in b.calls_to(EXTRACT):
            sites.append((b, c))
    ctx.check(len(sites) == 1 and re.search(r"rust_log_ref_finder::find$", sites[0][0].id), "C12-R3", "call-site-count",
              "extract_reference has exactly one caller, the Rust finder (%d)" % len(sites), ", ".join(c.where() for _, c in sites))
    for b, c in sites:
        root = pure_chain_root(b, c.args[0])
        ok = False
        if root[0] == "call" and root[1].matches(r"Index<std::ops::Range<usize>>.*::index$|::index$"):
            ix = root[1]
            base = pure_chain_root(b, ix.args[0])
            rng = single_def(b, op_place(ix.args[1])["l"]) if op_place(ix.args[1]) else None
            if base == ("param", 1) and rng and rng[1] == "assign" and rng[2]["rv"]["k"] == "agg" and rng[2]["rv"].get("adt", "").endswith("Range"):
                s_op, e_op = rng[2]["rv"]["ops"]
                rs, re_ = pure_chain_root(b, s_op), pure_chain_root(b, e_op)
                if rs[0] == "call" and re_[0] == "call" and rs[1].matches(r"pest::Span::<.*>::start$") and re_[1].matches(r"pest::Span::<.*>::end$"):
                    s1 = pure_chain_root(b, rs[1].args[0])
                    s2 = pure_chain_root(b, re_[1].args[0])
                    ok = s1 == s2 and s1[0] == "local"
                    if ok:
                        nm = b.local_name(s1[1])
                        ctx.ok("C12-R3", "the slice bounds are start()/end() of one span (`%s`)" % nm, c.where())
        ctx.check(ok, "C12-R3", "slice-shape", "the text examined is `code[span.start()..span.end()]` of a single span", c.where())
    from .c05 import rule_same_text
    rule_same_text(ctx, facts, "C12-R3")
    # R4 token ⊆ regex
    tb, tt = token_template(ctx, facts, "C12-R4")
    if tt is not None and prog_re is not None:
        c, pieces = tt
        shape = [k for k, _ in pieces]
        ok_shape = shape == ["lit", "arg", "lit"] and pieces[1][1]["default"]
        ctx.check(ok_shape, "C12-R4", "token-shape", "the message token is literal · {} · literal (%s)" % pieces, c.where())
        if ok_shape:
            pre, suf = pieces[0][1], pieces[2][1]
            ctx.check(pre == "[ref: " and suf == "] ", "C12-R4", "token-spelling", "the token is spelt `[ref: N] ` (%r, %r)" % (pre, suf), c.where())
            t = rx.token(pre, suf, prog_re)
            ctx.check(t.get("ok") and t.get("holds"), "C12-R4", "token-recognised",
                      "for every N in 0..=4294967295 the inserted token starts with a match of the extraction regex%s" % ("" if t.get("holds") else " — counter-example %r" % t.get("witness")),
                      c.where(), t)
            t2 = rx.token(pre, suf, DOC_REGEX)
            ctx.check(t2.get("ok") and t2.get("holds"), "C12-R4", "token-doc-regex", "…and of the documented regex %s" % DOC_REGEX, c.where())
            # the placeholder renders the u32 with Display
            disp = tb.calls_to(r"Argument::<.*>::new_display$")
            alln = tb.calls_to(r"Argument::<.*>::new_")
            nums = [d for d in disp if not re.search(r"new_display::<&?(str|std::string::String|alloc::string::String)>", d.full)]
            ctx.check(len(disp) == len(alln) and bool(nums) and all("new_display::<u32>" in d.full for d in nums), "C12-R4", "token-display",
                      "the number is rendered with Display for u32 (canonical decimal); every other placeholder is Display of a string (%d/%d)" % (len(nums), len(disp)), tb.where())
    # R5 docs
    repo = ctx.extra.get("repo", "/repo")
    doc = os.path.join(repo, "docs", "source", "using-log-references.rst")
    found = None
    if os.path.exists(doc):
        txt = open(doc, encoding="utf-8", errors="replace").read()
        mm = re.findall(r"\\\[ref: \(\[0-9\]\{1,10\}\)\\\]", txt)
        if mm:
            found = mm[0]
    if found is not None:
        t3 = rx.token("[ref: ", "] ", found)
        ctx.check(t3.get("holds"), "C12-R5", "doc-regex", "the regex printed in the user guide (%s) extracts every inserted token" % found, "docs/source/using-log-references.rst")
    else:
        ctx.note("user-guide regex not found in docs/source/using-log-references.rst; R5 compared against the statement's regex only")
    ctx.assume("u32 Display prints the canonical decimal and str::parse::<u32> accepts exactly [+]?[0-9]+ within range (std contract); "
               "the regex admits no '+', so acceptance = regex ∧ value <= u32::MAX")
    return {
        "explanation": "Decides the whole accept/reject boundary: the program's regex literal is extracted from MIR and proved "
                       "language-equivalent to the specification by DFA product (regex-automata, same regex-syntax version as the "
                       "program); the value path (group 1 -> parse::<u32> -> Some) and the single call site are checked by provenance; "
                       "token ⊆ regex is decided for all 2^32 values by automata inclusion.",
        "trusted": ["regex-syntax/regex-automata DFA construction", "std parse/Display contracts", "rustc MIR"],
    }
