"""C15 — only in-scope files are scanned; paths resolve against the config file.

R1 finder: files come only from WalkDir::new(config.source_dir) (no follow_links); the
   regular-file test is the no-follow idiom DirEntry::file_type().is_file() inside the
   iterator's filter; the extension is Path::extension() of the entry, converted without any
   case folding / trimming, and tested with Vec<String>::contains against
   config.rust.extensions; only matches are pushed.
R2 a relative source_dir becomes Path::new(config_dir).join(source_dir); config_dir is the
   parent of the --config operand; std::env::current_dir / set_current_dir are unreachable.
R3 both lock sites build Path::new(dir).join("Breadlog.lock") with dir = the config directory.
R4 the file list is the only source of paths that are read, and of rename destinations
   (C07-R1 roles), and the path read is the path written.
"""
import re
from .. import cfg
from ..callgraph import CallGraph, leaf_def
from ..common import (call_chain, trace_bool, bool_switch_targets, enum_switch, return_values, single_def, loop_containing)
from ..facts import op_place, op_const
from ..prov import Prov
from . import edit

FIND = r"finder::CodeFinder::<'\w+>::find$|finder::CodeFinder::find$"


def _field_path(body, op, depth=0):
    """names of fields on the ref chain behind op (outermost last)"""
    p = op_place(op)
    if p is None or depth > 8:
        return []
    names = [e.get("n") for e in p["p"] if isinstance(e, dict) and "f" in e]
    if names:
        return names
    d = single_def(body, p["l"])
    if d is None:
        return []
    if d[1] == "call":
        if d[2].matches(r"::deref$|::as_str$|::as_ref$|::as_path$|::clone$") and d[2].args:
            return _field_path(body, d[2].args[0], depth + 1)
        return []
    rv = d[2]["rv"]
    if rv["k"] == "ref":
        names = [e.get("n") for e in rv["place"]["p"] if isinstance(e, dict) and "f" in e]
        return names or _field_path(body, {"copy": {"l": rv["place"]["l"], "p": []}}, depth + 1)
    if rv["k"] == "use":
        return _field_path(body, rv["op"], depth + 1)
    return []


def rule_no_follow(ctx, facts, prefix):
    """the walk never follows symbolic links (so no file outside the tree is reached and no file is
    listed twice under two paths)"""
    f = facts.one(FIND)
    if f is None:
        return
    follow = []
    for b in [f] + facts.nested(f):
        for c in b.calls:
            if c.matches(r"walkdir::WalkDir::(follow_links|follow_root_links)$"):
                k = op_const(c.args[1]) if len(c.args) > 1 else None
                if not (k is not None and k.get("int") == 0):
                    follow.append(c)
    ctx.check(not follow, prefix, "follow-links", "symbolic links are never followed (%s)" % ([c.where() for c in follow] or "no follow_links call"), f.where())


_PASS = r"::(to_string|to_str|to_owned|into|ok_or_else|ok_or|branch|from_residual|unwrap|expect|unwrap_or_default|map|as_ref|as_str|as_path|clone|to_path_buf|into_os_string|into_string|display|to_string_lossy|into_owned|from|deref|borrow|as_os_str|from_str)$"


def _producers(body, op, target_re, depth=0, seen=None):
    """calls matching target_re from which the value of `op` can come, looking through copies, references,
    projections, Option / Result payloads (also the synthetic ones of desugared combinators), `?`, and conversion
    calls (receiver position)"""
    seen = seen if seen is not None else set()
    out = []
    p = op_place(op)
    if p is None or depth > 60 or p["l"] in seen:
        return out
    seen.add(p["l"])
    for (bb, kind, d) in body.defs.get(p["l"], []):
        if kind == "call":
            if d.matches(target_re):
                out.append(d)
            elif d.matches(_PASS) and d.args:
                out.extend(_producers(body, d.args[0], target_re, depth + 1, seen))
        elif kind == "assign":
            rv = d["rv"]
            if rv["k"] in ("use", "cast"):
                out.extend(_producers(body, rv["op"], target_re, depth + 1, seen))
            elif rv["k"] == "ref":
                out.extend(_producers(body, {"copy": rv["place"]}, target_re, depth + 1, seen))
            elif rv["k"] == "agg":
                for o2 in rv.get("ops", []):
                    out.extend(_producers(body, o2, target_re, depth + 1, seen))
    return out


def _sources(body, op, stop_re, depth=0, seen=None):
    """where the value of `op` comes from: ("call", c) for calls matching stop_re or any call that is not a pure
    conversion, ("field", names) for a load of a named field, ("param", l), ("const", k)"""
    seen = seen if seen is not None else set()
    out = []
    k = op_const(op)
    if k is not None:
        return [("const", k.get("str", k.get("text")))]
    p = op_place(op)
    if p is None or depth > 60:
        return out
    names = [e.get("n") for e in p["p"] if isinstance(e, dict) and "f" in e and e.get("n")]
    if names and not any(isinstance(e, dict) and "downcast" in e for e in p["p"]):
        return [("field", tuple(names))]
    if p["l"] in seen:
        return out
    seen.add(p["l"])
    ds = body.defs.get(p["l"], [])
    if not ds:
        return [("param", p["l"])]
    for (bb, kind, d) in ds:
        if kind == "call":
            if d.matches(stop_re) or not (d.matches(_PASS) and d.args):
                out.append(("call", d))
            else:
                out.extend(_sources(body, d.args[0], stop_re, depth + 1, seen))
        elif kind == "assign":
            rv = d["rv"]
            if rv["k"] in ("use", "cast"):
                out.extend(_sources(body, rv["op"], stop_re, depth + 1, seen))
            elif rv["k"] == "ref":
                out.extend(_sources(body, {"copy": rv["place"]}, stop_re, depth + 1, seen))
            elif rv["k"] == "agg":
                for o2 in rv.get("ops", []):
                    out.extend(_sources(body, o2, stop_re, depth + 1, seen))
    return out


def run(ctx):
    facts = ctx.bin
    P = "C15-R1"
    from .confimm import rule_config_as_loaded
    rule_config_as_loaded(ctx, facts, "C15-R1")
    f = facts.one(FIND)
    if ctx.check(f is not None, P, "anchor|find", "CodeFinder::find found", ""):
        wd = f.calls_to(r"^walkdir::WalkDir::new$")
        if ctx.check(len(wd) == 1, P, "one-walk", "one directory walk (%d)" % len(wd), f.where()):
            fp = _field_path(f, wd[0].args[0])
            ctx.check(fp[-1:] == ["source_dir"], P, "walk-root", "the walk starts at config.source_dir (%s)" % fp, wd[0].where())
        rule_no_follow(ctx, facts, P)
        # iterator chain of the loop
        nx = [c for c in f.calls_to(r"Iterator>::next$") if "walkdir" in c.full]
        if ctx.check(len(nx) == 1, P, "anchor|walk-loop", "the loop over the walk found", f.where()):
            NX = nx[0]
            ch, root = call_chain(f, NX.args[0])
            names = [c.name.split("::")[-1] for c in ch]
            ctx.check(names[-1:] == ["new"] and all(n in ("into_iter", "filter", "filter_map", "iter", "by_ref") for n in names[:-1]), P, "iter-chain",
                      "the loop drives WalkDir::new(..) directly or through filter / filter_map adapters only (%s)" % names, NX.where())
            # adapters: a filter closure must be the regular-file test; an adapter that turns the walk's Err items
            # into nothing (`filter_map(|e| e.ok())`, `flatten()`) hides whole directories from both modes
            clos = []
            for c in ch:
                if c.matches(r"::filter$|::filter_map$") and len(c.args) > 1:
                    p = op_place(c.args[1])
                    d = single_def(f, p["l"]) if p else None
                    if d and d[1] == "assign" and d[2]["rv"]["k"] == "agg" and d[2]["rv"].get("agg") == "closure":
                        clos.append((c, facts.body(d[2]["rv"]["def"])))
            ft_ok = False
            dropped = []
            for c, cb in clos:
                if cb is None:
                    continue
                names_c = [x.name for x in cb.calls]
                if c.matches(r"::filter$"):
                    ft_ok = [n.split("::")[-2:] for n in names_c] == [["DirEntry", "file_type"], ["FileType", "is_file"]] and cb.calls[1].dst["l"] == 0
                elif any(x.matches(r"Result::<.*>::ok$") for x in cb.calls):
                    dropped.append(cb.where())
            item_ty = f.local_ty(NX.dst["l"]) or ""
            if "Result<walkdir::DirEntry" in item_ty:
                # the loop sees the walk's errors: the Err arm must end the search with `false`
                handled = False
                for sb in sorted(loop_containing(f, NX.bb)):
                    es = enum_switch(f, sb)
                    if es is None or es[0]["p"] or not (f.local_ty(es[0]["l"]) or "").startswith(("std::result::Result<walkdir::DirEntry", "core::result::Result<walkdir::DirEntry")):
                        continue
                    err_arm = es[1].get(1, es[2])
                    region = cfg.reach(f, [err_arm])
                    falses = [st2 for (bb2, st2) in return_values(f) if bb2 in cfg.reach(f, [err_arm], avoid=[NX.bb])]
                    ends = NX.bb not in region
                    all_false = bool(falses) and all(st2["rv"]["k"] == "use" and (op_const(st2["rv"]["op"]) or {}).get("int") == 0 for st2 in falses)
                    handled = ends and all_false
                    ctx.check(handled, P, "walk-errors", "a directory entry that cannot be read ends the search with `false` (found: %s)" %
                              ("returns false" if handled else "the loop goes on" if not ends else "does not return false"), f.where(sb))
                if not handled and not any(enum_switch(f, sb) for sb in loop_containing(f, NX.bb)):
                    ctx.bad(P, "walk-errors", "the walk's Result items are never examined", NX.where())
            else:
                ctx.check(not dropped and "walkdir::DirEntry" not in item_ty.replace("Result<walkdir::DirEntry", ""), P, "walk-errors",
                          "errors of the directory walk (EACCES / EMFILE / ENAMETOOLONG on a sub-directory) are not discarded: the files below would be invisible to both modes and the run would still exit 0 (%s)" %
                          (("dropped by `.ok()` in " + ", ".join(dropped)) if dropped else "items reaching the loop are bare entries: %s" % item_ty), NX.where())
            if not ft_ok:
                # inline form: the push is reachable only through the true side of `entry.file_type().is_file()`
                pushes = [c for c in f.calls if re.search(r"Vec::<.*CodeFile>::push$", c.func.get("full", ""))]
                for c in f.calls_to(r"FileType::is_file$"):
                    chf, _r = call_chain(f, c.args[0])
                    if not (chf and chf[0].matches(r"walkdir::DirEntry::file_type$")):
                        continue
                    for sb in sorted(f.reachable_blocks()):
                        t = f.term(sb)
                        if t["k"] != "switch":
                            continue
                        k, pl, neg = trace_bool(f, t["discr"])
                        if k == "call" and pl.bb == c.bb:
                            tt, ff = bool_switch_targets(f, sb)
                            if neg:
                                tt, ff = ff, tt
                            if pushes and all(pc.bb not in cfg.reach(f, [ff], avoid=[NX.bb]) for pc in pushes):
                                ft_ok = True
            ctx.check(ft_ok, P, "regular-file-test", "the in-scope test is exactly `entry.file_type().is_file()` (does not follow symlinks)", f.where())
            bad = []
            for b in [f] + facts.nested(f):
                for c in b.calls:
                    if c.matches(r"^std::path::Path::(is_file|is_dir|exists|metadata|canonicalize|read_link)$|^std::fs::(symlink_metadata|canonicalize|read_link)$|walkdir::DirEntry::metadata$|DirEntry::path_is_symlink$"):
                        bad.append(c)
                    if c.matches(r"^std::fs::metadata$"):
                        if _field_path(b, c.args[0])[-1:] != ["source_dir"] or c.bb in loop_containing(f, NX.bb):
                            bad.append(c)
            ctx.check(not bad, P, "link-following-test", "no link-following file test in the walk (%s)" % ([c.name for c in bad] or "none"), f.where())
            # extension
            ext = f.calls_to(r"^std::path::Path::extension$")
            cont = [c for c in f.calls if c.matches(r"::contains$")]
            push = [c for c in f.calls if re.search(r"Vec::<.*CodeFile>::push$", c.func.get("full", ""))]
            membership = None   # (deciding call, haystack operand, needle operand, exact?)
            if len(cont) == 1:
                membership = (cont[0], cont[0].args[0], cont[0].args[1],
                              "Vec<std::string::String>" in cont[0].func.get("full", "") or "[std::string::String]" in cont[0].func.get("full", ""))
            elif not cont:
                # `extensions.iter().any(|w| w == ext)` (seen as a loop after desugaring) or a hand-written loop:
                # one string equality inside a loop over the list
                for nx2 in f.calls_to(r"Iterator>::next$"):
                    if nx2.bb == NX.bb or not nx2.args:
                        continue
                    lp2 = loop_containing(f, nx2.bb)
                    eqs = [c for c in f.calls if c.bb in lp2 and re.search(r"PartialEq.*::eq$", c.name) and re.search(r"String|str", c.func.get("full", ""))]
                    if len(eqs) == 1 and len(eqs[0].args) >= 2:
                        pe = Prov(f)
                        sides = eqs[0].args[:2]
                        item = [a for a in sides if any(x.bb == nx2.bb for x in call_chain(f, a)[0]) or any(o[0] == "call" and o[1].bb == nx2.bb for o in pe.origins_op(a))]
                        other = [a for a in sides if a not in item]
                        if len(item) == 1 and len(other) == 1:
                            membership = (eqs[0], nx2.args[0], other[0], True)
            if ctx.check(len(ext) == 1 and membership is not None and len(push) == 1, P, "anchor|ext-test", "extension()/membership test/push() found (%d/%s/%d)" % (len(ext), "1" if membership else "0", len(push)), f.where()):
                E, PU = ext[0], push[0]
                C, hay_op, needle_op, exact = membership
                che, re_ = call_chain(f, E.args[0])
                ne = [c.name.split("::")[-1] for c in che]
                ctx.check(ne[:1] == ["path"] and che[0].matches(r"walkdir::DirEntry::path$"), P, "ext-of-entry", "the extension is taken from the walked entry's path (%s)" % ne[:2], E.where())
                hay = _field_path(f, hay_op)
                if not hay:
                    chh, _rh = call_chain(f, hay_op)     # `list.iter()`: the list is the receiver at the end of the chain
                    if chh and all(x.matches(r"::(iter|into_iter|deref|as_slice|next)$") for x in chh) and chh[-1].args:
                        hay = _field_path(f, chh[-1].args[0])
                ctx.check(hay[-2:] == ["rust", "extensions"], P, "ext-list", "the list searched is config.rust.extensions (%s)" % hay, C.where())
                chn, rn = call_chain(f, needle_op)
                nn = [c.name.split("::")[-1] for c in chn]
                upto = nn[: nn.index("extension") + 1] if "extension" in nn else nn
                allowed = {"to_string", "to_owned", "ok_or", "to_str", "extension", "into", "from", "unwrap_or", "to_string_lossy", "into_owned"}
                ctx.check("extension" in nn and all(n in allowed for n in upto), P, "ext-unmodified",
                          "the tested string is the entry's extension, converted without case folding or trimming (%s)" % upto, C.where())
                ctx.check(exact, P, "ext-exact", "membership is exact string equality (slice::contains on Vec<String>, or `==` in a loop over it)", C.where())
                # push only on contains==true
                dom = cfg.dominators(f)
                sw = None
                for bb in sorted(f.reachable_blocks()):
                    t = f.term(bb)
                    if t["k"] == "switch":
                        k, pl, neg = trace_bool(f, t["discr"])
                        if k == "call" and pl.bb == C.bb:
                            tt, ft = bool_switch_targets(f, bb)
                            if neg:
                                tt, ft = ft, tt
                            sw = (bb, tt, ft)
                ctx.check(sw is not None and sw[1] in dom.get(PU.bb, ()), P, "push-only-match", "a file is listed only when its extension is in the list", PU.where())
                # ... and every file whose extension matched IS listed: from the match arm, each path back to the loop
                # head passes the push. A skip condition in between hides an in-scope file from both modes.
                if sw is not None:
                    skips = []
                    seen_sw = set()
                    for _ in range(4):
                        # a feasible path (values tracked: the membership flag is true here) from the match back to the
                        # loop head that never lists the file
                        pth = cfg.path_t(f, sw[1], [NX.bb], avoid=[PU.bb] + sorted(seen_sw))
                        if not pth:
                            break
                        dec = None
                        for sb in pth:
                            if f.term(sb)["k"] == "switch" and any(PU.bb in cfg.reach(f, [t_], avoid=[NX.bb]) for t_ in f.succ[sb]):
                                dec = sb
                        if dec is None:
                            skips.append((pth[-1], "?"))
                            break
                        what = "?"
                        es2 = enum_switch(f, dec)
                        if es2 is not None and not es2[0]["p"]:
                            d2 = single_def(f, es2[0]["l"])
                            if d2 and d2[1] == "call":
                                what = d2[2].name.split("::")[-1]
                            else:
                                # the Option travelled through helpers / combinators: name the last call on this path whose
                                # result was examined before the value got here
                                for sb2 in pth[: pth.index(dec) + 1]:
                                    e3 = enum_switch(f, sb2)
                                    if e3 is not None and not e3[0]["p"]:
                                        d3 = single_def(f, e3[0]["l"])
                                        if d3 and d3[1] == "call":
                                            what = d3[2].name.split("::")[-1]
                        skips.append((dec, what))
                        seen_sw.add(dec)
                    for (sb, what) in skips:
                        ctx.bad(P, "listing-total|skip-on|%s" % what,
                                "a regular file with a configured extension is silently left out when `%s` gives no value (e.g. a path that is not valid UTF-8): neither mode ever sees it" % what, f.where(sb))
                    if not skips:
                        ctx.ok(P, "every file whose extension matched is listed", PU.where())
                # the pushed path is the entry's path
                cf = [c for c in f.calls_to(r"finder::CodeFile::new$")]
                okp = False
                for c in cf:
                    chp, rp = call_chain(f, c.args[0])
                    np_ = [x.name.split("::")[-1] for x in chp]
                    okp = "path" in np_ and all(n in ("to_string", "to_str", "path", "to_owned", "into") for n in np_[: np_.index("path") + 1])
                ctx.check(okp, P, "pushed-path", "the listed path is the walked entry's own path", PU.where())
        cl = f.calls_to(r"Vec::<.*>::clear$")
        ctx.check(len(cl) >= 1, P, "list-reset", "the list is reset before each walk", f.where())
    # ---- R2 -------------------------------------------------------------------------------
    P = "C15-R2"
    cn = facts.one(r"config::context::Context::new$")
    if ctx.check(cn is not None, P, "anchor|Context::new", "Context::new found", ""):
        from ..common import path_parts
        # the value stored into config.source_dir in the relative case
        stores = []
        for bb in sorted(cn.reachable_blocks()):
            for st in cn.blocks[bb]["stmts"]:
                if st["k"] == "assign" and [e.get("n") for e in st["dst"]["p"] if isinstance(e, dict) and "f" in e][-1:] == ["source_dir"]:
                    stores.append((bb, st))
        if ctx.check(len(stores) == 1, P, "one-join", "one place rewrites config.source_dir (%d)" % len(stores), cn.where()):
            sb, sst = stores[0]
            chain, root = call_chain(cn, sst["rv"]["op"]) if sst["rv"]["k"] == "use" else ([], None)
            if not any(c.matches(r"^std::path::Path::to_str$|Path::to_string_lossy$|Path::display$") for c in chain) and sst["rv"]["k"] == "use":
                # the string travelled through Option / Result wrappers (helper returns, desugared combinators):
                # start from the calls that can produce the stored value
                from ..common import value_sites
                for (_b2, leaf) in value_sites(cn, sst["rv"]["op"]):
                    if not isinstance(leaf, dict) and leaf.args:
                        c2, r2 = call_chain(cn, leaf.args[0])
                        chain = [leaf] + c2
                        if any(c.matches(r"^std::path::Path::to_str$|Path::to_string_lossy$|Path::display$") for c in chain):
                            break
            # walk back to the path object: to_string <- to_str <- <path>
            pathop = None
            for c in chain:
                if c.matches(r"^std::path::Path::to_str$|Path::to_string_lossy$|Path::display$"):
                    pathop = c.args[0]
                    break
            parts = path_parts(cn, pathop) if pathop is not None else None
            fields = [_field_path(cn, x)[-1:] for x in (parts or [])]
            if fields != [["config_dir"], ["source_dir"]] and sst["rv"]["k"] == "use":
                # shape-independent: every `Path::join` the stored string can come from (through conversions,
                # Option / Result wrappers, `?`) joins Path::new(config_dir) with source_dir
                joins = _producers(cn, sst["rv"]["op"], r"^std::path::Path::join$")
                fj = []
                for j in joins:
                    base = _producers(cn, j.args[0], r"^std::path::Path::new$")
                    bf = [_field_path(cn, b.args[0])[-1:] for b in base] or [_field_path(cn, j.args[0])[-1:]]
                    fj.append((bf, _field_path(cn, j.args[1])[-1:]))
                if joins and all(bf and all(x == ["config_dir"] for x in bf) and af == ["source_dir"] for (bf, af) in fj):
                    parts, fields = [None, None], [["config_dir"], ["source_dir"]]
                else:
                    fields = fields or [str(x) for x in fj]
            if sst["rv"]["k"] == "use":
                srcs = _sources(cn, sst["rv"]["op"], r"^std::path::Path::join$")
                # the base may also be built as `PathBuf::from(config_dir)` + `push(source_dir)` (path_parts checks the pieces);
                # what must not happen is that the configured string itself, or anything else, becomes the new source_dir
                foreign = [x for x in srcs if not (x[0] == "call" and x[1].matches(r"^std::path::Path::join$")) and not (x[0] == "const")
                           and not (x[0] == "field" and x[1][-1:] == ("config_dir",)) and not (x[0] == "param" and x[1] == 2)]
                ctx.check(not foreign, P, "join-sole-source", "the rewritten source_dir comes from the join only (other sources: %s)" %
                          ([("%s %s" % (x[0], x[1].name if x[0] == "call" else x[1])) for x in foreign] or "none"), cn.where(sb))
            ctx.check(parts is not None and fields == [["config_dir"], ["source_dir"]], P, "join-base",
                      "the new source_dir is <config_dir>/<source_dir> (components: %s)" % fields, cn.where(sb))
            ctx.ok(P, "the joined component is the configured source_dir", cn.where(sb))
            J_bb = sb
            sw_ok = False
            for c in cn.calls_to(r"::starts_with$|Path::is_absolute$|Path::is_relative$|Path::has_root$"):
                for bb in sorted(cn.reachable_blocks()):
                    t = cn.term(bb)
                    if t["k"] == "switch":
                        k, pl, neg = trace_bool(cn, t["discr"])
                        if k == "call" and pl.bb == c.bb:
                            tt, ft = bool_switch_targets(cn, bb)
                            if neg:
                                tt, ft = ft, tt
                            rel_arm = ft if c.matches(r"starts_with$|is_absolute$|has_root$") else tt
                            dom = cfg.dominators(cn)
                            sw_ok = rel_arm in dom.get(J_bb, ())
            ctx.check(sw_ok, P, "join-only-relative", "the rewrite happens exactly for a relative source_dir", cn.where(sb))
            # ... and for *every* relative source_dir: from the relative side of that test no path reaches a return that
            # hands out a context without passing the rewrite (a fall-back that keeps the path "as given" resolves it
            # against the current working directory)
            for c in cn.calls_to(r"::starts_with$|Path::is_absolute$|Path::is_relative$|Path::has_root$"):
                for bb in sorted(cn.reachable_blocks()):
                    t = cn.term(bb)
                    if t["k"] != "switch":
                        continue
                    k, pl, neg = trace_bool(cn, t["discr"])
                    if not (k == "call" and pl.bb == c.bb):
                        continue
                    tt, ft = bool_switch_targets(cn, bb)
                    if neg:
                        tt, ft = ft, tt
                    rel_arm = ft if c.matches(r"starts_with$|is_absolute$|has_root$") else tt
                    rs = cfg.return_shapes(cn, rel_arm, avoid=[J_bb])
                    escaped = [rb for (rb, sh) in rs if sh is None or sh[0] == 0]
                    ctx.check(not escaped, P, "join-every-relative", "a relative source_dir is always rewritten before a context is returned (Ok return reachable without the rewrite at: %s)" %
                              ([cn.where(rb) for rb in escaped] or "none"), cn.where(bb))
        # config_dir field is the config_dir parameter
        okc = False
        for bb in sorted(cn.reachable_blocks()):
            for st in cn.blocks[bb]["stmts"]:
                if st["k"] == "assign" and any(isinstance(e, dict) and e.get("n") == "config_dir" for e in st["dst"]["p"]):
                    ch, root = call_chain(cn, st["rv"]["op"]) if st["rv"]["k"] == "use" else ([], None)
                    okc = root == ("param", 2) or any(o == ("param", 2) for o in Prov(cn).origins_op(st["rv"]["op"])) if st["rv"]["k"] == "use" else False
        ctx.check(okc, P, "config-dir-field", "config.config_dir is the directory passed by the caller", cn.where())
    sc = facts.one(r"^setup_context$")
    if ctx.check(sc is not None, P, "anchor|setup_context", "setup_context found", ""):
        cs = sc.calls_to(r"config::context::Context::new$")
        if ctx.check(len(cs) == 1, P, "one-context", "one Context::new call", sc.where()):
            prov = Prov(sc)
            org = prov.origins_op(cs[0].args[1])
            par = [c for c in sc.calls_to(r"^std::path::Path::parent$")]
            ok = bool(par) and all(o == ("param", 1) or (o[0] == "const" and dict(o[1]).get("str") == "") or (o[0] == "call" and o[1].matches(r"^std::string::String::new$")) for o in org) and \
                all(call_chain(sc, p.args[0])[1] == ("param", 1) for p in par)
            ctx.check(ok, P, "config-dir-source", "config_dir = parent directory of the --config operand (or \"\" when it has none)", cs[0].where())
    cg = CallGraph(facts)
    parent, leaves = cg.reach(roots=cg.roots)
    cwd = [e for e in leaves if re.search(r"^std::env::(current_dir|set_current_dir)$", leaf_def(e))]
    ctx.check(not cwd, P, "cwd", "the current working directory is never consulted or changed (%d reachable uses)" % len(cwd), "callgraph")
    # ---- R3 lock path -----------------------------------------------------------------------
    P = "C15-R3"
    for pat, what in ((r"Context::read_cached_next_reference_id$", "lock reader"), (r"Context::cache_next_reference_id$", "lock writer")):
        b = facts.one(pat)
        if not ctx.check(b is not None, P, "anchor|" + what, "%s found" % what, ""):
            continue
        # path = <directory argument>/"Breadlog.lock", built here or in a private helper both functions share
        from ..common import path_parts
        holders = [b] + [facts.body(c.name) for c in b.calls if c.name and facts.body(c.name) is not None and facts.body(c.name).kind in ("Fn", "AssocFn")]
        ok = False
        for hb in holders:
            cands = []
            for c in hb.calls:
                if c.matches(r"^std::fs::|^std::path::Path::exists$") and c.args:
                    cands.append(c.args[0])
            if hb is not b:
                cands += [st["rv"]["op"] for (_, st) in return_values(hb) if st["rv"]["k"] == "use"] + \
                         [{"copy": {"l": c.dst["l"], "p": []}} for c in hb.calls if c.dst["l"] == 0]
            for cand in cands:
                parts = path_parts(hb, cand)
                if not parts or len(parts) != 2:
                    continue
                r0 = call_chain(hb, parts[0])
                k = op_const(parts[1]) or {}
                if not k:
                    cc, rr = call_chain(hb, parts[1])
                    k = rr[1] if rr[0] == "const" else {}
                dirparam = [i for i in range(1, hb.arg_count + 1) if hb.local_ty(i) == "&str"]
                if r0[1][0] == "param" and r0[1][1] in dirparam and not r0[0] and k.get("str") == edit.LOCK_CONST:
                    if hb is b:
                        ok = True
                    else:
                        for c in b.calls:
                            if c.name == hb.id:
                                r = call_chain(b, c.args[r0[1][1] - 1])
                                mydir = [i for i in range(1, b.arg_count + 1) if b.local_ty(i) == "&str"]
                                ok = ok or (r[1][0] == "param" and r[1][1] in mydir and not r[0])
        ctx.check(ok, P, "lock-path|" + what, "%s: path = <directory argument>/\"Breadlog.lock\"" % what, b.where())
        # every fs call in it uses that path
        prov = Prov(b)
        for c in b.calls:
            if c.matches(r"^std::fs::|^std::path::Path::exists$"):
                if not c.args:
                    continue   # e.g. `OpenOptions::new()`: no path operand here; the path is on the `.open(..)` call
                ctx.check(edit.has_const_str(prov, c.args[0], edit.LOCK_CONST), P, "lock-fs-path|%s|%s" % (what, c.name.split("::")[-1]),
                          "%s: %s operates on that path" % (what, c.name.split("::")[-1]), c.where())
    if cn is not None:
        for c in cn.calls_to(r"Context::read_cached_next_reference_id$"):
            ch, root = call_chain(cn, c.args[1])
            ctx.check(root == ("param", 2) and not ch, P, "reader-dir", "the lock is read from the config directory", c.where())
    g = facts.one(edit.GENERATE)
    if g is not None:
        for c in g.calls_to(r"Context::cache_next_reference_id$"):
            fp = _field_path(g, c.args[2])
            ctx.check(fp[-2:] == ["config", "config_dir"], P, "writer-dir", "the lock is written to the config directory (%s)" % fp, c.where())
    # ---- R4 ---------------------------------------------------------------------------------
    P = "C15-R4"
    pr = facts.one(edit.PROCESS)
    if ctx.check(pr is not None, P, "anchor|process_references", "process_references async block found", ""):
        lc = pr.calls_to(r"generate::load_code$")
        mp = pr.calls_to(r"ReferenceProcessor(<.*>)?>?::map")
        if ctx.check(len(lc) == 1 and len(mp) == 1, P, "anchor|load-map", "load_code and map calls found", pr.where()):
            r1 = _path_local(pr, lc[0].args[0])
            r2 = _path_local(pr, mp[0].args[0])
            ctx.check(r1 is not None and r1 == r2, P, "same-path", "the path given to map (rename destination) is the path that was read", mp[0].where())
            d = single_def(pr, r1) if r1 is not None else None
            okp = False
            if d and d[1] == "call" and d[2].matches(r"::(clone|as_str|to_string|to_owned|as_ref|deref|borrow)$") and not d[2].local:
                fp = _field_path(pr, d[2].args[0])      # a copy of / a view on the element's `path` field
                okp = fp[-1:] == ["path"]
            elif d and d[1] == "assign" and d[2]["rv"]["k"] in ("ref", "use"):
                src_ = {"copy": d[2]["rv"]["place"]} if d[2]["rv"]["k"] == "ref" else d[2]["rv"]["op"]
                okp = _field_path(pr, src_)[-1:] == ["path"]   # `&file.path`
            ctx.check(okp, P, "path-from-list", "that path is the `path` of the current element of finder.code_files", lc[0].where())
            # contents given to map are what load_code returned
            prov = Prov(pr)
            o = prov.origins_op(mp[0].args[1])
            ctx.check(bool(o) and all(x[0] == "call" and x[1].matches(r"generate::load_code$") for x in o), P, "contents-from-read", "the contents given to map are the ones just read from that path", mp[0].where())
    from . import c07
    c07.rule_closed_set(ctx, facts, prefix="C15-R4/C07")
    lcb = facts.one(r"generate::load_code::\{closure#0\}$")
    if lcb is not None:
        rd = lcb.calls_to(r"async_std::fs::read_to_string$")
        ok = len(rd) == 1 and call_chain(lcb, rd[0].args[0])[1][0] == "upvar"
        ctx.check(ok, P, "read-path", "load_code reads exactly the path it is given", lcb.where())
    ctx.assume("walkdir without follow_links reports symlinks as symlinks (file_type() of the link itself) and does not descend into linked directories")
    ctx.assume("Path::extension() is the text after the last `.` of the file name, None for dot-files and names without a dot (std contract)")
    return {
        "explanation": "Provenance and idiom rules on rustc MIR: root and adapters of the directory walk, the no-follow regular-file idiom, "
                       "the exact extension test (Path::extension → String → Vec<String>::contains on config.rust.extensions), "
                       "push dominated by the match; path provenance of source_dir resolution, config_dir and both lock sites; "
                       "unreachability of current_dir; read-path = rename-destination in the pass driver.",
        "trusted": ["rustc MIR", "walkdir and std::path contracts"],
    }


def _path_local(body, op, depth=0):
    """local holding the String behind &path / path.deref() chains"""
    p = op_place(op)
    if p is None or depth > 8:
        return None
    d = single_def(body, p["l"])
    if d is None:
        return p["l"]
    if d[1] == "call":
        if d[2].matches(r"::deref$|::as_str$|::as_ref$") and d[2].args:
            return _path_local(body, d[2].args[0], depth + 1)
        return p["l"]
    rv = d[2]["rv"]
    if rv["k"] == "ref" and not [e for e in rv["place"]["p"] if e != "*"]:
        return _path_local(body, {"copy": {"l": rv["place"]["l"], "p": []}}, depth + 1)
    if rv["k"] == "use":
        return _path_local(body, rv["op"], depth + 1)
    return p["l"]
