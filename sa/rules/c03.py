"""C03 — edit mode only inserts reference tokens; existing references never change.

R1 copy-through invariant of the insert routine: every scratch write is `write_all` of either a
   slice contents.as_bytes()[cursor..X] or the bytes of insertable_reference_string(..); the
   cursor starts at 0 and, after a copy-write [cursor..X], becomes X before the next write;
   in the loop the copy-write precedes the token write which precedes the next entry; after
   the loop the tail [cursor..len] is written unless cursor >= len; then the rename.
   Invariant: bytes written with the token writes deleted = contents[0..cursor], = contents at
   the rename.
R2 selection: tokens are written exactly for the entries with ¬exists ∧ usable (C05-R1), and a
   file with none is returned before a scratch file exists.
R3 token table: both of prefix/suffix None -> `[ref: {}] `; otherwise prefix · {} · suffix in
   that order, and nothing else is appended.
R4 the insertion offset is entry.position().character(), a byte offset, used to slice bytes.
"""
import re
from .. import cfg
from ..common import (call_chain, trace_bool, bool_switch_targets, enum_switch, return_values, single_def, loop_containing)
from ..facts import op_place, op_const
from ..fmtdec import template_of_call
from ..prov import Prov
from . import edit
from .c17 import describe


def run(ctx):
    facts = ctx.bin
    P = "C03-R1"
    from . import gram
    gram.literal_text_premises(ctx, ctx.grammar, "C03-G")
    gram.g18_message_not_key(ctx, ctx.grammar, "C03-G")
    # "a statement that already carries a valid reference receives nothing": which text is a valid reference is C12's
    # accept / reject boundary (regex rows) and, for the key-value form, C13's value rows
    from . import c12 as _c12, c13 as _c13
    from .c06 import _run_as as _run_as06
    _run_as06(_c12, _Only(ctx, "C03-R6", ("regex-language", "regex-anchor", "regex-groups", "regex-group-span", "regex-use", "haystack", "parse-u32", "group-1")), ctx)
    _run_as06(_c13, _Only(ctx, "C03-R6", ("key-constant", "key-source", "key-compare", "key-text", "value-parse", "value-text", "value-layout")), ctx)
    # "only inserts tokens" also means that nothing is lost: what is renamed over the source is the complete new text.
    # async-std buffers writes, so a failed write of the last chunk shows only at flush / sync; if that error does not
    # stop the rename, a file without its tail replaces the source (C07-R2 / R3 as premises)
    from . import c07 as _c07
    _c07.rule_complete_before_publish(ctx, facts, prefix="C03-R5/C07")
    _c07.rule_no_retry(ctx, facts, prefix="C03-R5/C07-R3")
    m = edit.anchor(ctx, facts, P, edit.INSERT_MAP, "InsertReferencesProcessor::map (async body)")
    if m is not None:
        prov = Prov(m, stop_at=(r"AsyncTempFile::(path|file)$",))
        ops = edit.storage_ops(facts, m)
        writes = [c for (role, c) in ops if role == "scratch-write"]
        unknown = [c for (role, c) in ops if role == "unknown"]
        partial = [c for c in m.calls if c.matches(r"WriteExt::write$|Write::write$|::write_vectored$|::write_at$|::seek$|::set_len$|::write_fmt$")]
        ctx.check(not partial and not unknown, P, "partial-write", "the scratch file is written only with write_all (no write / seek / set_len / write_fmt): %s" % ([c.name for c in partial + unknown] or "ok"), m.where())
        # the file's text is map's second parameter (path, contents, params, entries) whatever it is called
        mp_ = facts.body(m.parent) if m.parent else None
        CONTENTS = (mp_.locals[2].get("name") if mp_ is not None and mp_.arg_count >= 2 else None) or "file_contents"
        copies, tokens = [], []
        for w in writes:
            ch, root = call_chain(m, w.args[1])
            names = [c.name.split("::")[-1] for c in ch]
            if names[:2] == ["as_bytes", "insertable_reference_string"] or (names[:1] == ["as_bytes"] and any(n == "insertable_reference_string" for n in names[:4])):
                tokens.append(w)
            elif names[:2] == ["index", "as_bytes"] and root[0] == "upvar" and _upvar_name(m, root[1]) == CONTENTS:
                rng = single_def(m, op_place(ch[0].args[1])["l"]) if op_place(ch[0].args[1]) else None
                if rng and rng[1] == "assign" and rng[2]["rv"]["k"] == "agg" and rng[2]["rv"].get("adt", "").endswith("ops::Range"):
                    s_op, e_op = rng[2]["rv"]["ops"]
                    copies.append((w, describe(m, s_op), describe(m, e_op), _root_named_local(m, s_op), _root_named_local(m, e_op)))
                else:
                    ctx.bad(P, "copy-shape|%s" % describe(m, w.args[1]), "a copy write does not slice the contents with a start..end range", w.where())
            else:
                ctx.bad(P, "foreign-write|%s" % ",".join(names[:3]), "a scratch write whose data is neither a slice of the file's contents nor a rendered token (chain %s)" % names[:4], w.where())
        ctx.check(len(tokens) == 1 and len(copies) == 2, P, "write-census", "scratch writes: %d token, %d copy (expected 1 + 2)" % (len(tokens), len(copies)), m.where())
        if len(tokens) == 1 and len(copies) == 2:
            T = tokens[0]
            loop = loop_containing(m, T.bb)
            inloop = [c for c in copies if c[0].bb in loop]
            tail = [c for c in copies if c[0].bb not in loop]
            if ctx.check(len(inloop) == 1 and len(tail) == 1, P, "copy-placement", "one copy write inside the entry loop, one after it", m.where()):
                (W1, s1, e1, sl1, el1), (W2, s2, e2, sl2, el2) = inloop[0], tail[0]
                ctx.check(sl1 is not None and sl1 == sl2, P, "one-cursor", "both copy writes start at the same cursor variable (`%s` / `%s`)" % (s1, s2), W1.where())
                cursor = sl1
                # cursor assignments
                if cursor is not None:
                    defs = m.defs.get(cursor, [])
                    inits, updates, odd = [], [], []
                    for (bb, kind, d) in defs:
                        if kind != "assign":
                            odd.append("call")
                            continue
                        rv = d["rv"]
                        if rv["k"] == "use" and op_const(rv["op"]) is not None:
                            inits.append((bb, op_const(rv["op"]).get("int")))
                        else:
                            updates.append((bb, describe(m, {"copy": {"l": cursor, "p": []}}) if False else _describe_rv(m, rv)))
                    ctx.check([v for _, v in inits] == [0] and all(b not in loop for b, _ in inits), P, "cursor-init", "the cursor starts at 0, outside the loop (%s)" % inits, m.where())
                    cname = m.local_name(cursor)
                    good_updates = {"Add(%s,Sub(%s,%s).0).0" % (cname, e1, cname), "Add(%s,Sub(%s,%s))" % (cname, e1, cname), e1}
                    ctx.check(len(updates) == 1 and not odd and updates[0][1] in good_updates, P, "cursor-update",
                              "the cursor's only update sets it to the end of the copy just written (`%s`; expected %s = %s)" % ([u for _, u in updates], cname, e1), m.where())
                    if len(updates) == 1:
                        ub = updates[0][0]
                        nxs = [c for c in m.calls_to(r"Iterator>::next$") if c.bb in loop]
                        dom = cfg.dominators(m)
                        # order inside one iteration: W1 -> update -> T -> next
                        sw1 = edit.examining_switches(m, prov, W1)
                        for (sb, err_arm, ok_arm) in sw1:
                            p1 = cfg.path(m, ok_arm, [T.bb] + [c.bb for c in nxs], avoid=[ub])
                            ctx.check(p1 is None, P, "update-after-copy", "after a successful copy the cursor is advanced before anything else is written", m.where(sb))
                        ctx.check(W1.bb in dom.get(T.bb, ()) and W1.bb in dom.get(ub, ()), P, "copy-before-token", "within an iteration the copy up to the insertion point precedes the token", T.where())
                        swt = edit.examining_switches(m, prov, T)
                        # no second token / copy in the same iteration is implied by the census
                # the end of the in-loop copy is the insertion offset
                ch, root = call_chain(m, {"copy": {"l": el1, "p": []}}) if el1 is not None else ([], None)
                names = [c.name.split("::")[-1] for c in ch]
                ctx.check(names[:2] == ["character", "position"], P, "copy-end-is-offset", "the in-loop copy ends at entry.position().character() (%s)" % names[:2], W1.where())
                # tail
                lens = [c for c in m.calls_to(r"str>::len$|::len$") if call_chain(m, c.args[0])[1][0] == "upvar"]
                end_ok = el2 is not None and any(c.dst["l"] == el2 or _copy_chain(m, el2, c.dst["l"]) for c in lens if _upvar_name(m, call_chain(m, c.args[0])[1][1]) == CONTENTS)
                ctx.check(end_ok, P, "tail-end-is-len", "the tail copy ends at file_contents.len() (`%s`)" % e2, W2.where())
                ren = [c for (role, c) in ops if role == "publish"]
                if ctx.check(len(ren) == 1, P, "anchor|rename", "the rename found", m.where()):
                    R = ren[0]
                    nxs = [c for c in m.calls_to(r"Iterator>::next$") if c.bb in loop]
                    # paths from loop exit to rename that skip the tail write must pass the false arm of cursor < len
                    guard = None
                    for bb in sorted(m.reachable_blocks()):
                        t = m.term(bb)
                        if t["k"] == "switch":
                            k, pl, neg = trace_bool(m, t["discr"])
                            if k == "bin" and pl["rv"]["op"] in ("Lt", "Gt", "Ge", "Le", "Ne"):
                                a, b = describe(m, pl["rv"]["a"]), describe(m, pl["rv"]["b"])
                                tt, ft = bool_switch_targets(m, bb)
                                if neg:
                                    tt, ft = ft, tt
                                if (a, b) == (s2, e2) and pl["rv"]["op"] in ("Lt", "Ne"):
                                    guard = (bb, tt, ft)
                                if (a, b) == (e2, s2) and pl["rv"]["op"] == "Gt":
                                    guard = (bb, tt, ft)
                    exit_blocks = []
                    for nx in nxs:
                        es = enum_switch(m, nx.target)
                        if es:
                            exit_blocks.append(es[1].get(0, es[2]))
                    if ctx.check(guard is not None and exit_blocks, P, "tail-guard", "the tail copy is guarded by `cursor < len`", W2.where()):
                        gb, gt, gf = guard
                        dom = cfg.dominators(m)
                        ctx.check(gt in dom.get(W2.bb, ()), P, "tail-on-true", "cursor < len ⇒ the tail is written", m.where(gb))
                        for eb in exit_blocks:
                            p = cfg.path_t(m, eb, [R.bb], avoid=[W2.bb, gf])
                            ctx.check(p is None, P, "tail-skipped", "the rename is reached without the tail copy only when cursor >= len", R.where())
                            p2 = cfg.path_t(m, eb, [R.bb], avoid=[gb])
                            ctx.check(p2 is None, P, "tail-guard-bypassed", "every path from the loop to the rename evaluates the tail guard", R.where())
                # no write after the tail / between loop exit and rename other than the tail
        # R4: bytes, not chars
        ab = m.calls_to(r"str>::as_bytes$|::as_bytes$")
        ctx.check(len(ab) >= 2, "C03-R4", "bytes", "offsets slice `as_bytes()` (byte offsets from pest spans)", m.where())
    # R1(e): the text given to the insert routine is byte-for-byte what was read from the path
    lc = facts.one(r"generate::load_code::\{closure#0\}$")
    if ctx.check(lc is not None, P, "anchor|load_code", "load_code (async body) found", ""):
        rd = lc.calls_to(r"async_std::fs::read_to_string$")
        ctx.check(len(rd) == 1, P, "read-exact", "the file is read with read_to_string (strict UTF-8; the String holds exactly the file's bytes): %s" % [c.name for c in lc.calls if "fs::" in c.name], lc.where())
        for (bb, st) in return_values(lc):
            rv = st["rv"]
            if rv["k"] == "agg" and rv.get("variant") == "Some":
                ch, root = call_chain(lc, rv["ops"][0])
                names = [c.name.split("::")[-1] for c in ch]
                # through the await plumbing only
                plumbing = {"read_to_string", "into_future", "new_unchecked", "poll", "get_context"}
                other = [n for n in names if n not in plumbing and not n.startswith("{closure")]
                ctx.check("read_to_string" in names and not other, P, "contents-unmodified", "load_code returns the read String unmodified (chain %s)" % names[:4], lc.where(bb))
    pr = facts.one(edit.PROCESS)
    if pr is not None:
        for c in pr.calls_to(r"ReferenceProcessor(<.*>)?>?::map"):
            ch, root = call_chain(pr, c.args[1])
            names = [x.name.split("::")[-1] for x in ch]
            upto = names[: names.index("load_code") + 1] if "load_code" in names else names
            plumbing = {"deref", "as_str", "load_code", "into_future", "new_unchecked", "poll"}
            ctx.check("load_code" in names and all(n in plumbing or n.startswith("{closure") for n in upto), P, "contents-passed",
                      "map receives exactly the String load_code returned (chain %s)" % upto, c.where())
    from .c05 import rule_same_text
    rule_same_text(ctx, facts, "C03-R4")
    # ---- R2 ------------------------------------------------------------------------------------
    from . import c05
    sub = _Only(ctx, "C03-R2", ("table|insert", "extra-condition|insert", "early-exit-first", "loop-filtered", "filter-source", "anchor|filters", "anchor|early-exit"))
    c05_run_r1_insert(sub, facts)
    # ---- R3 token table ---------------------------------------------------------------------------
    P = "C03-R3"
    t = facts.one(r"LogRefEntry::insertable_reference_string$")
    if ctx.check(t is not None, P, "anchor|renderer", "insertable_reference_string found", ""):
        from .. import dte, textval
        from ..common import tuple_field_src
        # decided first on the text itself: for each of the four (prefix, suffix) cases, the pieces of the returned
        # String on every feasible path, whatever the code uses to assemble them (push_str, format!, concat ..)
        WANT_SYM = {
            (True, True): {("lit:[ref: ", "number", "lit:] ")},
            (True, False): {("number", "suffix")},
            (False, True): {("prefix", "number")},
            (False, False): {("prefix", "number", "suffix")},
        }
        sym = {}
        sym_notes = []
        for pn in (True, False):
            for sn in (True, False):
                try:
                    res, notes = textval.evaluate(t, {"insertion_prefix": "prefix", "insertion_suffix": "suffix"}, 2, {"prefix": pn, "suffix": sn})
                except Exception as e:   # the evaluator is an addition: if it cannot walk the body the event table below decides
                    res, notes = {None}, [repr(e)]
                sym[(pn, sn)] = res
                sym_notes.extend(notes)
        sym_ok = all(sym[k] == WANT_SYM[k] for k in WANT_SYM) and t.local_ty(2) == "u32"
        if sym_ok:
            ctx.check(True, P, "append-only", "the token is assembled from text pieces only (decided on the returned text)", t.where())
            ctx.check(True, P, "plain-test", "the form is chosen by `prefix is None` / `suffix is None` only", t.where())
            for key in WANT_SYM:
                ctx.check(True, P, "token-table|Pnone=%s,Snone=%s" % key, "prefix %s, suffix %s ⇒ the returned text is %s" % (
                    "None" if key[0] else "Some", "None" if key[1] else "Some", sorted(sym[key])), t.where())
            ctx.check(True, P, "number-display", "the number is the `reference_id` argument (u32) rendered with Display", t.where())
            ctx.check(True, P, "returns-buffer", "the function returns the assembled text", t.where())
        if not sym_ok:
            pushes = t.calls_to(r"String::push_str$|String::push$|String::insert_str$|String::insert$|::extend$|::write_str$|::write_fmt$")
            if True:
                ctx.check(all(c.matches(r"String::push_str$") for c in pushes) and len(pushes) >= 3, P, "append-only", "the token is built by push_str only (%d appends; text evaluation: %s)" % (len(pushes), {k: sorted(map(str, v)) for k, v in sym.items()}), t.where())
            tmpl = {}
            for a_ in t.calls_to(r"fmt::Arguments::<.*>::new"):
                tmpl[a_.dst["l"]] = template_of_call(a_)

            def classify_push(c):
                ch, root = call_chain(t, c.args[1])
                fmt = [x for x in ch if x.matches(r"fmt::format$")]
                if fmt:
                    tm = tmpl.get(op_place(fmt[0].args[0])["l"]) if op_place(fmt[0].args[0]) else None
                    if tm == [("lit", "[ref: "), ("arg", {"default": True, "byte": 192}), ("lit", "] ")]:
                        return "plain"
                    if tm == [("arg", {"default": True, "byte": 192})]:
                        return "number"
                    return "fmt?%s" % (tm,)
                if any(x.matches(r"::to_string$") for x in ch) and root == ("param", 2):
                    return "number"
                f_ = _field_through(t, c.args[1])
                return {"insertion_prefix": "prefix", "insertion_suffix": "suffix"}.get(f_, "other:%s" % f_)

            kinds = {c.bb: classify_push(c) for c in pushes}

            def call_hook(c):
                if c.matches(r"Option::<.*>::is_none$|Option::<.*>::is_some$") and c.args:
                    f_ = _field_of(t, c.args[0])
                    nm = {"insertion_prefix": "Pnone", "insertion_suffix": "Snone"}.get(f_)
                    if nm:
                        return (nm, "bool", c.matches(r"is_none$"))
                return None

            def place_hook(body, place):
                f_ = _field_of(body, {"copy": place})
                nm = {"insertion_prefix": "Pnone", "insertion_suffix": "Snone"}.get(f_)
                if nm:
                    return (nm, False)   # discriminant Some(=1) means NOT none
                return None

            def events(bb, x):
                if isinstance(x, dict) and x.get("k") == "call" and bb in kinds:
                    return kinds[bb]
                return None

            rows = dte.extract(t, 0, set(), dte.Atoms([], call_hook, place_hook), events=events)
            table = {}
            opaque = set()
            for asg, evs, out in rows:
                for k in asg:
                    if k not in ("Pnone", "Snone"):
                        opaque.add(k)
                for pn in (True, False):
                    for sn in (True, False):
                        if asg.get("Pnone", pn) == pn and asg.get("Snone", sn) == sn:
                            table.setdefault((pn, sn), set()).add(tuple(e for e in evs if not e.startswith("<")))
            ctx.check(not opaque, P, "plain-test", "the form is chosen by `prefix is None` / `suffix is None` only (other conditions: %s)" % (sorted(opaque) or "none"), t.where())
            want = {
                (True, True): {("plain",)},
                (True, False): {("number", "suffix")},
                (False, True): {("prefix", "number")},
                (False, False): {("prefix", "number", "suffix")},
            }
            for key, exp in want.items():
                got = table.get(key, set())
                ctx.check(got == exp, P, "token-table|Pnone=%s,Snone=%s" % key,
                          "prefix %s, suffix %s ⇒ appends %s (found %s)" % ("None" if key[0] else "Some", "None" if key[1] else "Some", sorted(exp), sorted(got)), t.where())
            disp = t.calls_to(r"Argument::<.*>::new_")
            ctx.check(all("new_display::<u32>" in d.full for d in disp) and len(disp) >= 1, P, "number-display", "the number is the `reference_id` argument rendered with Display", t.where())
            for d in disp:
                ch, root = call_chain(t, tuple_field_src(t, d.args[0]))
                ctx.check(root == ("param", 2), P, "number-source|%s" % d.bb, "the rendered number is the reference_id parameter", d.where())
            # the returned String is the buffer the pushes went to
            for (rb, rst) in return_values(t):
                if rst["rv"]["k"] == "use":
                    pl = op_place(rst["rv"]["op"])
                    bufs = {_base_local_of(t, c.args[0]) for c in pushes}
                    ctx.check(pl is not None and (pl["l"] in bufs), P, "returns-buffer", "the function returns the buffer it appended to", t.where(rb))
    # prefix/suffix are only set in the structured-new branch
    f = facts.one(r"rust_log_ref_finder::find$")
    if f is not None:
        from .c13 import assigned_kinds
        kinds_ = assigned_kinds(f)
        newb = kinds_.get("StructuredNew", [])
        sets = []
        from .finder import entry_args
        from ..common import value_sites
        ea = entry_args(facts, f) or {}
        for nm in ("insertion_prefix", "insertion_suffix"):
            if nm in ea:
                for (bb, d) in value_sites(f, ea[nm]):
                    if isinstance(d, dict) and d["rv"]["k"] == "agg" and d["rv"].get("variant") == "None":
                        continue
                    sets.append(bb)
        dom = cfg.dominators(f)
        isn = [c for c in f.calls_to(r"Option::<.*>::is_none$") if "CodePosition" in c.full]
        ok = bool(newb) and bool(sets)
        if isn:
            from .c13 import _switch_on_call
            sw = _switch_on_call(f, isn[0])
            ok = ok and sw is not None and all(sw[1] in dom.get(b, ()) for b in sets)
        ctx.check(ok, "C03-R3", "affixes-only-new", "prefix/suffix are set only when a new key-value is prepared (all other entries render the plain token)", f.where())
        ne = f.calls_to(r"LogRefEntry::new$")
        ctx.check(len(ne) == 1, "C03-R3", "one-entry-ctor", "entries are built at one place", f.where())
    ctx.assume("write_all writes the whole buffer or fails (async-std contract); C07-R2 makes the bytes reach the disk before the rename")
    return {
        "explanation": "Copy-through loop invariant decided structurally on rustc MIR of the insert routine: census and data provenance of "
                       "the scratch writes, a single cursor initialised to 0 whose only update is provably the end of the copy just "
                       "written (affine form cursor + (X − cursor) under the dominating X ≥ cursor guard), ordering copy → update → "
                       "token per iteration, guarded tail copy to len(), then rename; decision table and templates of the token renderer.",
        "trusted": ["rustc MIR", "write_all contract"],
    }


def _base_local_of(body, op):
    from ..common import _base_local
    return _base_local(body, op)


def _describe_rv(body, rv):
    if rv["k"] == "use":
        return describe(body, rv["op"])
    if rv["k"] == "bin":
        return "%s(%s,%s)" % (rv["op"].replace("WithOverflow", ""), describe(body, rv["a"]), describe(body, rv["b"]))
    return rv["k"]


def _upvar_name(body, place):
    fs2 = [e["f"] for e in place["p"] if isinstance(e, dict) and "f" in e]
    for u in body.j.get("upvars", []):
        fs = [e["f"] for e in u["place"]["p"] if isinstance(e, dict) and "f" in e]
        if fs and fs2 and fs[0] == fs2[0]:
            return u["name"]
    return None


def _root_named_local(body, op, depth=0):
    p = op_place(op)
    if p is None or p["p"]:
        return None
    if body.local_name(p["l"]):
        return p["l"]
    d = single_def(body, p["l"])
    if d and d[1] == "assign" and d[2]["rv"]["k"] == "use" and depth < 6:
        return _root_named_local(body, d[2]["rv"]["op"], depth + 1)
    return p["l"]


def _copy_chain(body, l, target, depth=0):
    if l == target:
        return True
    d = single_def(body, l)
    if d and d[1] == "assign" and d[2]["rv"]["k"] == "use" and depth < 6:
        p = op_place(d[2]["rv"]["op"])
        return p is not None and not p["p"] and _copy_chain(body, p["l"], target, depth + 1)
    return False


def _field_of(body, op, depth=0):
    p = op_place(op)
    if p is None or depth > 6:
        return None
    names = [e.get("n") for e in p["p"] if isinstance(e, dict) and "f" in e and not str(e.get("n", "")).isdigit()]
    if names:
        return names[-1]
    d = single_def(body, p["l"])
    if d and d[1] == "assign":
        rv = d[2]["rv"]
        if rv["k"] == "ref":
            names = [e.get("n") for e in rv["place"]["p"] if isinstance(e, dict) and "f" in e and not str(e.get("n", "")).isdigit()]
            if names:
                return names[-1]
            return _field_of(body, {"copy": {"l": rv["place"]["l"], "p": []}}, depth + 1)
        if rv["k"] == "use":
            return _field_of(body, rv["op"], depth + 1)
    return None


def _field_through(body, op, depth=0):
    """field name behind deref()/as_str() chains"""
    p = op_place(op)
    if p is None or depth > 8:
        return None
    f = _field_of(body, op)
    if f:
        return f
    d = single_def(body, p["l"])
    if d and d[1] == "call" and d[2].args:
        return _field_through(body, d[2].args[0], depth + 1)
    if d and d[1] == "assign" and d[2]["rv"]["k"] == "ref":
        return _field_through(body, {"copy": {"l": d[2]["rv"]["place"]["l"], "p": []}}, depth + 1)
    return None


class _Only:
    """ctx proxy: keep obligations whose key starts with one of the prefixes, rename the rule"""

    def __init__(self, ctx, rule, keys):
        self.c, self.rule, self.keys = ctx, rule, keys

    def _k(self, key):
        return any(str(key).startswith(k) for k in self.keys)

    def ok(self, *a, **k):
        pass

    def bad(self, rule, key, msg, where="", detail=None):
        if self._k(key):
            self.c.bad(self.rule, key, msg, where, detail)

    def check(self, cond, rule, key, what, where="", detail=None):
        if self._k(key):
            return self.c.check(cond, self.rule, key, what, where, detail)
        return cond

    def assume(self, t):
        pass

    def note(self, t):
        pass

    @property
    def bin(self):
        return self.c.bin


def c05_run_r1_insert(ctx, facts):
    """the insert-routine part of C05-R1 (selection tables), reused for C03-R2"""
    from . import c05
    im = facts.one(edit.INSERT_MAP)
    if im is None:
        return
    P = "C05-R1"
    fcs = c05.filter_closures(facts, im)
    ctx.check(len(fcs) == 2, P, "anchor|filters", "insert routine: early-exit filter and loop filter found (%d)" % len(fcs), im.where())
    for i, (c, clo) in enumerate(sorted(fcs, key=lambda x: x[0].bb)):
        key = "insert-early" if i == 0 else "insert-loop"
        what = "insert routine (%s)" % ("nothing-to-do test" if i == 0 else "edit loop")
        c05.compare(ctx, P, key, what, c05.table_of_predicate(ctx, clo, P, key, what), clo.where())
    cnt = im.calls_to(r"Iterator>::count$|::count$|Iterator>::any$|::any$")
    tmp = im.calls_to(r"AsyncTempFile::new$")
    if ctx.check(len(cnt) == 1 and len(tmp) == 1, P, "anchor|early-exit", "early exit (count) and scratch creation found", im.where()):
        dom = cfg.dominators(im)
        ctx.check(cnt[0].bb in dom.get(tmp[0].bb, ()), P, "early-exit-first", "the nothing-to-do test precedes the creation of the scratch file", cnt[0].where())
        toks = im.calls_to(r"insertable_reference_string$")
        for tk in toks:
            loop = loop_containing(im, tk.bb)
            nx = [c for c in im.calls_to(r"Iterator>::next$") if c.bb in loop and c.bb in dom.get(tk.bb, ())]
            okf = any(any(x.matches(r"::filter$") for x in call_chain(im, n.args[0])[0]) for n in nx)
            ctx.check(okf, P, "loop-filtered", "tokens are written only for entries that passed the filter", tk.where())
