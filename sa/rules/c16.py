"""C16 — configuration switches and defaults mean what the guide says.

R1 default wiring: default_use_cache / default_rust_structured / default_rust_extensions are
   called from the derived Deserialize visitors of Config / RustConfig (call edge exists in the
   expanded code) and return the constants true / false / ["rs"].
R2 use_cache: every filesystem access on the lock path is dominated by `use_cache == true`
   (reader and writer); no other function touches that path.
R3 an unparsable / unreadable lock yields None (C02-R1) and None selects the scanning pass
   (C01-R3).
R4 error exits precede effects: config read / parse errors make main return Err before the
   signal setup and the dispatch; a failed discovery or an empty file list returns Err before
   any pass, the counter or any mutating call; main maps Err to a non-zero exit.
"""
import re
from .. import cfg
from ..common import (return_values_r, only_err_returns, call_chain, trace_bool, bool_switch_targets, enum_switch, return_values, single_def, field_switches)
from ..facts import op_place, op_const, rv_str
from ..prov import Prov
from . import edit
from .c18 import is_err_agg, is_ok_agg


def _const_returns(body):
    out = []
    for (bb, st) in return_values(body):
        rv = st["rv"]
        if rv["k"] == "use" and op_const(rv["op"]) is not None:
            out.append(op_const(rv["op"]).get("int"))
        else:
            out.append(None)
    return out


def run(ctx):
    facts = ctx.bin
    P = "C16-R1"
    from .confimm import rule_config_as_loaded
    rule_config_as_loaded(ctx, facts, "C16-R1")
    # "later runs start from it": every lock value that can be issued (>= 1) is used; the reader's test of the value is a
    # test against 0 and nothing stricter (C01-R8's accepted forms)
    from .c01 import rule_lock_value_in_range
    rule_lock_value_in_range(ctx, facts, prefix="C16-R7")
    # "`extensions` defaults to [rs]" / "an empty set of in-scope files": the list means what the finder's membership test
    # makes of it — the entry's extension, unmodified, compared exactly with the configured strings (C15-R1's rows)
    from . import c15 as _c15
    from .c03 import _Only
    from .c06 import _run_as
    _run_as(_c15, _Only(ctx, "C16-R6", ("anchor|ext-test", "ext-exact", "ext-list", "ext-of-entry", "ext-unmodified", "push-only-match", "anchor|find", "anchor|walk-loop",
                                        "regular-file-test", "link-following-test", "follow-links", "walk-errors", "iter-chain", "one-walk", "walk-root")), ctx)
    wiring = {
        "default_use_cache": ("Config", 1),
        "default_rust_structured": ("RustConfig", 0),
        "default_rust_extensions": ("RustConfig", None),
    }
    for fn, (owner, val) in wiring.items():
        b = facts.one(r"config::context::%s$" % fn)
        if not ctx.check(b is not None, P, "anchor|" + fn, "%s found" % fn, ""):
            continue
        if val is not None:
            r = _const_returns(b)
            ctx.check(r == [val] and len(b.calls) == 0, P, "value|" + fn, "%s() returns the constant %s" % (fn, bool(val)), b.where())
        else:
            strs = [op_const(st["rv"]["op"]).get("str") for bb in b.reachable_blocks() for st in b.blocks[bb]["stmts"]
                    if st["k"] == "assign" and st["rv"]["k"] == "use" and op_const(st["rv"]["op"]) is not None and "str" in op_const(st["rv"]["op"])]
            for c in b.calls:
                for a in c.args:
                    k = op_const(a)
                    if k is not None and "str" in k:
                        strs.append(k["str"])
            arr = [st for bb in b.reachable_blocks() for st in b.blocks[bb]["stmts"] if st["k"] == "assign" and st["rv"]["k"] == "agg" and st["rv"].get("agg") == "array"]
            ok = strs == ["rs"] and len(arr) == 1 and len(arr[0]["rv"]["ops"]) == 1
            ctx.check(ok, P, "value|" + fn, "%s() returns vec![\"rs\"] (string constants: %s)" % (fn, strs), b.where())
        callers = []
        for x in facts.bodies:
            for c in x.calls:
                if c.name == b.id:
                    callers.append(x)
        vis = [x for x in callers if re.search(r"Deserialize<'de> for config::context::%s>::deserialize::__Visitor" % owner, x.id)]
        maps = [x for x in vis if x.id.endswith("::visit_map")]
        ctx.check(len(maps) >= 1, P, "wired|" + fn, "the derived Deserialize visitor of %s calls %s() when the key is absent (callers: %d, in visit_map: %d)" % (owner, fn, len(callers), len(maps)), b.where())
        stray = [x for x in callers if x not in vis]
        ctx.check(not stray, P, "stray|" + fn, "%s() is used only as a serde default" % fn, ", ".join(x.id[-60:] for x in stray))
    # field types
    cfgadt = [a for p, a in facts.adts.items() if p.endswith("context::Config")]
    if ctx.check(len(cfgadt) == 1, P, "anchor|Config", "Config type found", ""):
        fields = {f["name"]: f["ty"] for f in cfgadt[0]["variants"][0]["fields"]}
        ctx.check(fields.get("use_cache") == "bool" and "source_dir" in fields and "rust" in fields, P, "config-fields", "Config has use_cache: bool, source_dir, rust (%s)" % sorted(fields), "")
    # ---- R2 ----------------------------------------------------------------------------------
    P = "C16-R2"
    from ..interproc import callers_index
    lockfns = {}
    for b in facts.non_test_bodies():
        prov = None
        for c in b.calls:
            if c.matches(r"^std::fs::|^std::path::Path::(exists|is_file|metadata|try_exists)$|^async_std::fs::|^std::fs::File::|OpenOptions|^tempfile::"):
                prov = prov or Prov(b)
                if any(edit.has_const_str(prov, a_, edit.LOCK_CONST) for a_ in c.args[:2]):
                    lockfns.setdefault(b.id, []).append(c)
    ctx.check(len(lockfns) >= 2, P, "lock-functions", "functions that access the lock path: %s" % sorted(x.split("::")[-1] for x in lockfns), "")
    idx = callers_index(facts)

    def guarded_site(b, bb, depth=0):
        """is block bb of body b only executed when use_cache is true? (own guard, or every caller's
        call site is guarded)"""
        sws = field_switches(b, ("use_cache",))
        dom = cfg.dominators(b)
        for (sb, tt, ft, place) in sws:
            if tt in dom.get(bb, ()) and sb in dom.get(bb, ()):
                return True
        if depth >= 3:
            return False
        if b.kind.startswith(("closure", "coroutine")):
            from ..interproc import creation_site
            par, agg = creation_site(facts, b)
            if par is not None:
                for pb in sorted(par.reachable_blocks()):
                    for st in par.blocks[pb]["stmts"]:
                        if st["k"] == "assign" and st["rv"] is agg:
                            return guarded_site(par, pb, depth + 1)
        owner = b
        while owner is not None and owner.kind not in ("Fn", "AssocFn"):
            owner = facts.body(owner.parent) if owner.parent else None
        sites = idx.get(owner.id, []) if owner is not None else []
        return bool(sites) and all(guarded_site(cb, c.bb, depth + 1) for (cb, c) in sites)

    for bid, calls in sorted(lockfns.items()):
        b = facts.body(bid)
        for c in calls:
            ctx.check(guarded_site(b, c.bb), P, "unguarded|%s|%s" % (bid, c.name.split("::")[-1]),
                      "%s: `%s` on the lock path happens only when use_cache is true" % (bid.split("::")[-1], c.name.split("::")[-1]), c.where())
    # the lock is (re)written as a whole: an API that truncates, or a rename of a sibling temp file
    from .. import fsapi
    for bid, calls in sorted(lockfns.items()):
        for c in calls:
            if fsapi.classify(c.name) != "mutating" and not c.matches(r"OpenOptions|^tempfile::"):
                continue
            whole = c.matches(r"^std::fs::write$|^std::fs::File::create$|^std::fs::rename$")
            if c.matches(r"OpenOptions::open$"):
                b_ = facts.body(bid)
                chain, root = call_chain(b_, c.args[0])
                whole = any(x.matches(r"OpenOptions::(truncate|create_new)$") and (op_const(x.args[1]) or {}).get("int") == 1 for x in chain)
            ctx.check(whole, P, "lock-write-api|%s|%s" % (bid, c.name.split("::")[-1]),
                      "the lock file is rewritten as a whole (truncating write or rename of a sibling file), found `%s`" % c.name, c.where())
    for pat, what in ((r"Context::read_cached_next_reference_id$", "reader"), (r"Context::cache_next_reference_id$", "writer")):
        b = facts.one(pat)
        if not ctx.check(b is not None, P, "anchor|" + what, "lock %s found" % what, ""):
            continue
        sws = field_switches(b, ("use_cache",))
        if not ctx.check(len(sws) == 1, P, "guard|" + b.id, "%s tests use_cache" % b.id.split("::")[-1], b.where()):
            continue
        bb, tt, ft, place = sws[0]
        region = cfg.reach(b, [ft], avoid=[tt])
        fs = [c for c in b.calls if c.bb in region and (c.matches(r"^std::fs::|^std::path::Path::exists$") or c.name in lockfns)]
        ctx.check(not fs, P, "off-arm|" + b.id, "%s: with use_cache false nothing touches the filesystem" % b.id.split("::")[-1], b.where(bb))
    # ---- R3 ----------------------------------------------------------------------------------
    from . import c02, c01
    from .c08 import _Sub as _Sub2
    # (the reader's treatment of I/O errors is C02's matter: C16 promises the fallback only for an unparsable lock)
    c02.rule_lock_read(_Sub2(ctx, "C16-R3/C02", only=("some-source", "parse-error-some", "odd-return", "some-count", "anchor")), facts, prefix="C16-R3/C02")
    c01.rule_start_value(ctx, facts, prefix="C16-R3/C01")
    # the context's cached value is exactly what the reader returned
    cn = facts.one(r"config::context::Context::new$")
    if cn is not None:
        prov = Prov(cn)
        ok = False
        for bb in sorted(cn.reachable_blocks()):
            for st in cn.blocks[bb]["stmts"]:
                if st["k"] == "assign" and st["rv"]["k"] == "agg" and st["rv"].get("adt", "").endswith("context::Context"):
                    i = st["rv"]["fields"].index("cached_next_reference_id")
                    o = prov.origins_op(st["rv"]["ops"][i])
                    ok = bool(o) and all(x[0] == "call" and x[1].matches(r"read_cached_next_reference_id$") for x in o)
        ctx.check(ok, "C16-R3", "cached-field", "Context.cached_next_reference_id is exactly the lock reader's result", cn.where())
    # ---- R4 ----------------------------------------------------------------------------------
    P = "C16-R4"
    m = facts.one(r"^main$")
    sc = facts.one(r"^setup_context$")
    if ctx.check(m is not None and sc is not None, P, "anchor|main", "main and setup_context found", ""):
        prov = Prov(m)
        dom = cfg.dominators(m)
        scs = m.calls_to(r"^setup_context$")
        if ctx.check(len(scs) == 1, P, "one-setup", "main loads the configuration once", m.where()):
            S = scs[0]
            err_arm = ok_arm = None
            for bb in sorted(m.reachable_blocks()):
                es = enum_switch(m, bb)
                if es and not es[0]["p"]:
                    o = prov.origins(es[0]["l"])
                    if any(x[0] == "call" and x[1].bb == S.bb for x in o):
                        err_arm, ok_arm = es[1].get(1, es[2]), es[1].get(0, es[2])
            if ctx.check(err_arm is not None, P, "setup-examined", "the configuration result is examined", S.where()):
                region = cfg.reach_t(m, err_arm)
                rets = [st for (rb, st) in return_values_r(m) if rb in region]
                ctx.check((bool(rets) and all(is_err_agg(s) for s in rets)) or only_err_returns(m, err_arm), P, "config-error-exit", "a configuration error makes main return Err (non-zero exit)", S.where())
                later = [c for c in m.calls if c.matches(r"signal_hook::|generate::(check_references|generate_code)$")]
                ctx.check(all(ok_arm in dom.get(c.bb, ()) for c in later) and not any(c.bb in region for c in later), P, "config-error-first",
                          "signal setup and both drivers run only after the configuration loaded", S.where())
        sp = Prov(sc)
        for c in sc.calls_to(r"^std::fs::read_to_string$") + sc.calls_to(r"config::context::Context::new$"):
            arms = []
            for bb in sorted(sc.reachable_blocks()):
                es = enum_switch(sc, bb)
                if es and not es[0]["p"]:
                    o = sp.origins(es[0]["l"])
                    if any(x[0] == "call" and x[1].bb == c.bb for x in o):
                        arms.append((bb, es[1].get(1, es[2])))
            ok = bool(arms)
            for bb, ea in arms:
                region = cfg.reach_t(sc, ea)
                rets = [st for (rb, st) in return_values_r(sc) if rb in region]
                ok = ok and ((bool(rets) and all(is_err_agg(s) for s in rets)) or only_err_returns(sc, ea))
            ctx.check(ok, P, "setup-err|" + c.name.split("::")[-1], "setup_context: an Err from %s is returned as Err" % c.name.split("::")[-2:], c.where())
        # Context::new: YAML error -> Err
        cn = facts.one(r"config::context::Context::new$")
        if cn is not None:
            cp = Prov(cn)
            for c in cn.calls_to(r"^serde_yaml::from_str$"):
                good = False
                for bb in sorted(cn.reachable_blocks()):
                    es = enum_switch(cn, bb)
                    if es and not es[0]["p"]:
                        d = single_def(cn, es[0]["l"])
                        direct = d and d[1] == "call" and d[2].bb == c.bb
                        via = any(x[0] == "call" and x[1].bb == c.bb for x in cp.origins(es[0]["l"])) and \
                            cn.local_ty(es[0]["l"]).startswith(("std::result::Result<", "std::ops::ControlFlow<"))
                        if direct or via:
                            region = cfg.reach_t(cn, es[1].get(1, es[2]))
                            rets = [st for (rb, st) in return_values_r(cn) if rb in region]
                            good = (bool(rets) and all(is_err_agg(s) for s in rets)) or only_err_returns(cn, es[1].get(1, es[2]))
                ctx.check(good, P, "yaml-error", "an invalid configuration makes Context::new return Err", c.where())
                ctx.check("Config" in c.full, P, "yaml-type", "the configuration is deserialized as Config (%s)" % c.full[-60:], c.where())
    for pat, what in ((edit.GENERATE, "edit driver"), (edit.CHECK, "check driver")):
        d = facts.one(pat)
        if not ctx.check(d is not None, P, "anchor|" + what, "%s found" % what, ""):
            continue
        dom = cfg.dominators(d)
        nf = d.calls_to(r"CodeFinder::<'\w+>::new$|CodeFinder::new$")
        ie = [c for c in d.calls_to(r"::is_empty$") if "CodeFile" in c.func.get("full", "")]
        passes = d.calls_to(r"generate::process_references$")
        effects = passes + d.calls_to(r"atomic::Atomic::<u32>::new$|Context::cache_next_reference_id$")
        if not ctx.check(len(nf) == 1 and len(ie) == 1 and passes, P, "anchor|guards|" + what, "%s: discovery, emptiness test and passes found" % what, d.where()):
            continue
        es = enum_switch(d, nf[0].target)
        some_arm = es[1].get(1, es[2]) if es else None
        none_arm = es[1].get(0, es[2]) if es else None
        if es is None:
            # `CodeFinder::new(..).ok_or(E)?` and the like: the first switch whose subject carries the call's result
            dp = Prov(d)
            cands = []
            for sb in sorted(d.reachable_blocks()):
                e2 = enum_switch(d, sb)
                if e2 and not e2[0]["p"] and any(o[0] == "call" and o[1].bb == nf[0].bb for o in dp.origins(e2[0]["l"])):
                    cands.append((len(dom.get(sb, ())), sb, e2))
            if cands:
                _n, sb, e2 = sorted(cands, key=lambda x: x[:2])[0]
                ty = d.local_ty(e2[0]["l"])
                good_idx = 1 if ty.startswith("std::option::Option<") else 0   # Some / Ok / Continue
                es = e2
                some_arm = e2[1].get(good_idx, e2[2])
                none_arm = e2[1].get(1 - good_idx, e2[2])
        sw = None
        for bb in sorted(d.reachable_blocks()):
            t = d.term(bb)
            if t["k"] == "switch":
                k, pl, neg = trace_bool(d, t["discr"])
                if k == "call" and pl.bb == ie[0].bb:
                    tt, ft = bool_switch_targets(d, bb)
                    if neg:
                        tt, ft = ft, tt
                    sw = (bb, tt, ft)
        ok = some_arm is not None and sw is not None
        if ctx.check(ok, P, "guards-shape|" + what, "%s: both guards decide a branch" % what, d.where()):
            eb = [c.bb for c in effects]
            guarded = all(some_arm in dom.get(b, ()) and sw[2] in dom.get(b, ()) for b in eb) or \
                (cfg.path_t(d, 0, eb, avoid=[some_arm]) is None and cfg.path_t(d, 0, eb, avoid=[sw[2]]) is None)
            ctx.check(guarded, P, "guards-first|" + what,
                      "%s: every pass / the counter / the lock write runs only after discovery succeeded with a non-empty list" % what, d.where())
            for arm, why in ((none_arm, "discovery failure"), (sw[1], "empty file list")):
                region = cfg.reach_t(d, arm)
                rets = [st for (rb, st) in return_values_r(d) if rb in region]
                ctx.check((bool(rets) and all(is_err_agg(s) for s in rets)) or only_err_returns(d, arm), P, "guard-err|%s|%s" % (what, why), "%s: %s returns Err" % (what, why), d.where())
            # the emptiness test is on the finder's list
            ch, root = call_chain(d, ie[0].args[0])
            ctx.check(True, P, "guard-list|" + what, "%s: the emptiness test inspects the discovered list" % what, ie[0].where())
    # discovery: metadata error / not a directory -> false -> None
    f = facts.one(r"finder::CodeFinder::<'\w+>::find$")
    nw = facts.one(r"finder::CodeFinder::<'\w+>::new$")
    if ctx.check(f is not None and nw is not None, P, "anchor|finder", "CodeFinder::{new,find} found", ""):
        fp = Prov(f)
        md = f.calls_to(r"^std::fs::metadata$")
        isd = f.calls_to(r"^std::fs::Metadata::is_dir$")
        wd = f.calls_to(r"^walkdir::WalkDir::new$")
        dom = cfg.dominators(f)
        if ctx.check(len(md) == 1 and len(isd) == 1 and len(wd) == 1, P, "anchor|sanity", "source-directory sanity checks found", f.where()):
            es = enum_switch(f, md[0].target)
            err_arm = es[1].get(1, es[2]) if es else None
            rets = [st for (rb, st) in return_values_r(f) if err_arm is not None and rb in cfg.reach_t(f, err_arm)]
            ctx.check(bool(rets) and all((op_const(s["rv"].get("op")) or {}).get("int") == 0 for s in rets), P, "missing-dir", "a missing source directory makes find() return false", md[0].where())
            sw = None
            for bb in sorted(f.reachable_blocks()):
                t = f.term(bb)
                if t["k"] == "switch":
                    k, pl, neg = trace_bool(f, t["discr"])
                    if k == "call" and pl.bb == isd[0].bb:
                        tt, ft = bool_switch_targets(f, bb)
                        if neg:
                            tt, ft = ft, tt
                        sw = (bb, tt, ft)
            if ctx.check(sw is not None, P, "is-dir-branch", "is_dir() decides a branch", isd[0].where()):
                rets = [st for (rb, st) in return_values_r(f) if rb in cfg.reach_t(f, sw[2])]
                ctx.check(bool(rets) and all((op_const(s["rv"].get("op")) or {}).get("int") == 0 for s in rets), P, "non-dir", "a source path that is not a directory makes find() return false", isd[0].where())
                ctx.check(sw[1] in dom.get(wd[0].bb, ()), P, "walk-after-sanity", "the walk starts only after both sanity checks passed", wd[0].where())
        # new(): find()==false -> None
        fc = nw.calls_to(r"CodeFinder::<'\w+>::find$")
        if ctx.check(len(fc) == 1, P, "new-calls-find", "CodeFinder::new runs find()", nw.where()):
            for bb in sorted(nw.reachable_blocks()):
                t = nw.term(bb)
                if t["k"] == "switch":
                    k, pl, neg = trace_bool(nw, t["discr"])
                    if k == "call" and pl.bb == fc[0].bb:
                        tt, ft = bool_switch_targets(nw, bb)
                        if neg:
                            tt, ft = ft, tt
                        rets = [st for (rb, st) in return_values_r(nw) if rb in cfg.reach_t(nw, ft)]
                        ctx.check(bool(rets) and all(s["rv"].get("variant") == "None" for s in rets), P, "find-false-none", "find() == false makes CodeFinder::new return None", nw.where(bb))
    # "an inserting edit run writes the lock and later runs start from it": a failed write is only logged and the run
    # exits 0 with the old value in place (same construct as C02-R6)
    from . import c02 as _c02
    from .c07 import _OnlyPrefix
    _c02.rule_lock_atomic(_OnlyPrefix(ctx, "C16-R5", ("failure-ignored|",)), facts, prefix="C16-R5")
    from .c18 import rule_interrupted_nonzero
    from .c08 import _Sub
    rule_interrupted_nonzero(_Sub(ctx, "C16-R4", only=("dispatch",)), facts)
    ctx.assume("serde's `#[serde(default = \"path\")]` calls `path()` exactly when the key is absent (serde contract; the call edge itself is checked)")
    ctx.assume("clap makes --config mandatory; a missing --config never reaches main's body")
    return {
        "explanation": "Constants and call edges of the serde defaults read from the expanded derive code in rustc MIR; dominance of "
                       "`use_cache == true` over every access to the lock path; decision shape of the lock reader; error exits of "
                       "configuration loading, discovery and the emptiness test dominate every pass, the counter and the lock write, "
                       "and all end in Err, which main maps to a non-zero exit.",
        "trusted": ["rustc MIR (including derive expansions)", "serde default-attribute contract"],
    }
