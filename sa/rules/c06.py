"""C06 — after a successful edit the tree is a fixpoint and every insertion round-trips.

Composition of decided parts:
R1 message token: { `[ref: ` dec(N) `] ` | 0<=N<=u32::MAX } ⊆ prefix language of the extraction
   regex and group 1 spans exactly dec(N) (automata, exact for all N)  [C12-R1/R4].
R2 key-value token: writer prefix and reader comparison use the same key function; the value is
   read with parse::<u32> from the value span; the inserted text `KEY = N, ` / `KEY = N; ` is
   parsed by the grammar's kvp_args with value span `N` (G9: digit head, tail stops at `,` `;`;
   KEY matches kvp_key; separators' first characters are the stops)  [C13-R1/R3 + G9/G15].
R3 the structured-new anchor is a key-value slot: after the target argument, before all other
   key-values (C13-R4, G10, G14).
R4 idempotence structure: a file with nothing missing is returned before a scratch file exists;
   the counter advances only where a token is then written, so a run that inserts nothing
   leaves the counter — and hence the lock value — equal to its start.
NOT decided: that every statement that received a reference is still recognised for arbitrary
statement shapes (PEG acceptance of the rewritten text) beyond R1-R3.
"""
from .. import cfg, rx
from ..common import call_chain, enum_switch, loop_containing
from ..facts import op_const
from ..prov import Prov
from . import edit, gram, c12, c13, c05
from .c03 import _Only


def run(ctx):
    facts = ctx.bin
    g = ctx.grammar
    # "every statement that received a reference is still recognised afterwards": the parse must not be able to give up
    # on a file (a parser work limit reached only *after* the insertions made the file longer loses the whole file)
    from .finder import rule_parse_complete
    rule_parse_complete(ctx, facts, "C06-R1")
    # the re-check after an edit sees what the edit wrote only if (a) offsets computed by the finder are applied to the very
    # text they were computed on and (b) a statement's record is built from that statement alone (state kept across
    # statements puts the wrong separator after a new key-value, and the edited statement no longer parses as written)
    from .c05 import rule_same_text
    rule_same_text(ctx, facts, "C06-R3")
    from .finder import rule_statement_local_state
    rule_statement_local_state(ctx, facts, "C06-R2")
    # "after an edit run that exits 0 ...": a run in which some file could not be updated must not exit 0 (C08 as a premise:
    # every storage error reaches a `failure: true` result, results are never dropped, the flag decides the exit status)
    from . import c08 as _c08

    class _AllAs:
        def __init__(s, c, rule):
            s.c, s.rule = c, rule

        def check(s, cond, rule, key, what, where="", detail=None):
            return s.c.check(cond, s.rule + "/" + rule, key, what, where, detail)

        def bad(s, rule, key, msg, where="", detail=None):
            s.c.bad(s.rule + "/" + rule, key, msg, where, detail)
    _run_as(_c08, _AllAs(ctx, "C06-R5"), ctx)
    # R1 — reuse C12's automata obligations under C06 names
    sub = _Only(ctx, "C06-R1", ("regex-language", "regex-anchor", "regex-groups", "regex-group-span", "token-shape", "token-spelling",
                                "token-recognised", "token-doc-regex", "token-display", "anchor|", "template-decode", "parse-u32", "group-1", "some-payload"))
    sub.grammar = g
    sub.extra = ctx.extra
    _run_as(c12, sub, ctx)
    # R2 / R3 — reuse C13
    sub2 = _Only(ctx, "C06-R2", ("key-constant", "key-source", "key-compare", "key-text", "value-parse", "value-text", "value-layout", "prefix-template", "prefix-key",
                                 "separators", "kv-count-complete", "kv-scan-complete", "kind-new", "new-only-if-none", "G9|", "G15|", "anchor|"))
    _run_as(c13, sub2, ctx)
    sub3 = _Only(ctx, "C06-R3", ("one-span|", "same-end|", "same-shift|", "shift-span", "shift-paren", "G10|", "G14|", "inner-handles", "target-flag",
                                 "post-target-span", "post-target-first-only", "anchor-after-target", "paren-anchor-only-without-target", "literal-inner"))
    _run_as(c13, sub3, ctx)
    # grammar side of the kv round trip
    P = "C06-R2"
    if "kvp_key" in g.rules and "rust_identifier" in g.rules:
        first = g.first(g.expr("kvp_key"))
        ctx.check(("class", "XID_START") in first, P, "key-is-identifier", "`ref` (XID_START XID_CONTINUE*) is matched by kvp_key", "src/parser/rust_grammar.pest")
    parts = g.seq_of("kvp_args") if "kvp_args" in g.rules else []
    from ..grammar import flatten
    if parts and parts[0]["k"] == "rep1":
        inner = flatten(parts[0]["e"], "seq")
        eq = [p for p in inner if p["k"] == "opt" and flatten(p["e"], "seq")[0] == {"k": "str", "v": "="}]
        ctx.check(len(eq) == 1, P, "eq-token", "a key-value is written `key = value` with the single token `=` (the inserted ` = ` is `=` plus skipped whitespace)", "src/parser/rust_grammar.pest")
    # R4
    P = "C06-R4"
    m = edit.anchor(ctx, facts, P, edit.INSERT_MAP, "InsertReferencesProcessor::map (async body)")
    if m is not None:
        prov = Prov(m, stop_at=(r"AsyncTempFile::(path|file)$",))
        from .c01 import RMW
        steps = m.calls_to(RMW)
        toks = [c for (role, c) in edit.storage_ops(facts, m) if role == "scratch-write" and c05._writes_token(m, prov, c)]
        if ctx.check(len(steps) == 1 and len(toks) == 1, P, "anchor|step-token", "counter step and token write found (%d/%d)" % (len(steps), len(toks)), m.where()):
            S, T = steps[0], toks[0]
            loop = loop_containing(m, S.bb)
            nxs = [c for c in m.calls_to(r"Iterator>::next$") if c.bb in loop]
            rets = edit.failure_returns(m)
            okrets = [r["bb"] for r in rets if r["kind"] == "result" and edit.const_bool(r["failure"]) is False]
            for (sb, err_arm, ok_arm) in edit.examining_switches(m, prov, S):
                p = cfg.path_t(m, ok_arm, [c.bb for c in nxs] + okrets, avoid=[T.bb])
                ctx.check(p is None, P, "step-without-token", "an ID taken from the counter is always followed by its token write before the next entry or a success result", m.where(sb))
            dom = cfg.dominators(m)
            ctx.check(S.bb in loop and all(nx.bb in dom.get(S.bb, ()) for nx in nxs[:1]), P, "step-in-loop", "the counter is stepped only inside the loop over the selected entries", S.where())
            others = [c for b in facts.non_test_bodies() for c in b.calls_to(RMW + r"|atomic::Atomic::<u32>::store$") if b.id != m.id]
            ctx.check(not others, P, "no-other-step", "nothing else modifies the counter (%s)" % ([c.where() for c in others] or "none"), m.where())
    # a second edit run (and --check) must look at the same files: the discovered list is never filtered
    from .c01 import rule_file_list_immutable
    rule_file_list_immutable(ctx, facts, "C06-R4")
    # selection + early exit (C05/C03 pieces)
    from .c03 import c05_run_r1_insert
    c05_run_r1_insert(_Only(ctx, "C06-R4", ("table|insert", "extra-condition|insert", "early-exit-first", "loop-filtered")), facts)
    # the lock value written is the counter (C02-R2) — so zero insertions leave it equal to the start
    from . import c02
    c02.rule_lock_covers(_Only(ctx, "C06-R4", ("value-arithmetic", "value-source", "value-stale", "writer-stores")), facts)
    g_ = facts.one(edit.GENERATE)
    if g_ is not None:
        # no-lock case with nothing missing: return Ok before the counter exists
        ok = False
        from ..common import trace_bool, bool_switch_targets, return_values
        gp = Prov(g_)
        for bb in sorted(g_.reachable_blocks()):
            t = g_.term(bb)
            if t["k"] == "switch":
                k, pl, neg = trace_bool(g_, t["discr"])
                if k == "bin" and (op_const(pl["rv"]["b"]) or {}).get("int") in (0, 1):
                    org = gp.origins_op(pl["rv"]["a"])
                    if not any(o[0] == "call" and o[1].matches(r"process_references$") and "NextReferenceIdProcessor" in o[1].full for o in org):
                        continue
                    tt, ft = bool_switch_targets(g_, bb)
                    if neg:
                        tt, ft = ft, tt
                    form = (pl["rv"]["op"], (op_const(pl["rv"]["b"]) or {}).get("int"))
                    zero_arm = {("Eq", 0): tt, ("Ne", 0): ft, ("Gt", 0): ft, ("Lt", 1): tt, ("Ge", 1): ft, ("Le", 0): tt}.get(form)
                    if zero_arm is None:
                        continue
                    other = ft if zero_arm == tt else tt
                    region = cfg.explore(g_, zero_arm, avoid=[other])[0]   # variant-tracked: an `Ok(None)` handed to the caller stays None
                    news = g_.calls_to(r"atomic::Atomic::<u32>::new$")
                    ok = not any(c.bb in region for c in news) and not any(c.bb in region for c in g_.calls_to(r"cache_next_reference_id$"))
        ctx.check(ok, P, "nothing-missing-no-lock-write", "without a lock, a tree with nothing missing ends before the counter or the lock write", g_.where())
    ctx.assume("composition: a token that reads back as `exists` makes the entry not-missing (C05-R1), so a second pass selects nothing (prose)")
    return {
        "explanation": "Writer/reader agreement decided exactly for the message token (automata inclusion for all 2^32 values) and "
                       "structurally for the key-value token (same key function, parse::<u32> on the value span, grammar stops at the "
                       "inserted separators); anchor-is-a-kv-slot via C13/G10; idempotence structure: counter steps only where a token "
                       "write follows, early exit before any scratch file, lock value = counter.",
        "trusted": ["regex-automata", "pest_meta AST", "rustc MIR"],
    }


def _run_as(mod, sub, ctx):
    """run another property's module against a filtering proxy"""
    class Proxy:
        def __init__(s):
            s.bin, s.lib, s.grammar, s.extra, s.tier, s.seed = ctx.bin, ctx.lib, ctx.grammar, ctx.extra, ctx.tier, ctx.seed
            s.prop = ctx.prop

        def ok(s, *a, **k):
            pass

        def bad(s, rule, key, msg, where="", detail=None):
            sub.bad(rule, key, msg, where, detail)

        def check(s, cond, rule, key, what, where="", detail=None):
            return sub.check(cond, rule, key, what, where, detail)

        def assume(s, t):
            pass

        def note(s, t):
            pass
    mod.run(Proxy())
