"""C07 — source files are replaced atomically at every crash and fault point.

Protocol argument: a source path is only ever the *destination of one rename* from a scratch
file (R1: closed set of mutating call sites, each in a recognised role with the provenance of
its path operand); rename is atomic; so a source file is old-or-new iff the scratch file is
complete on disk when the rename runs (R2: every write is followed by flush then fsync on
every path to the rename) and no failed step reaches the rename (R3). R4: nothing leaks the
scratch file or bypasses destructors.
"""
import re
from .. import cfg
from ..prov import Prov
from ..facts import rv_str
from . import edit

FORBIDDEN = (r"^std::mem::forget$|^std::mem::ManuallyDrop::<.*>::new$|^std::process::exit$|^std::process::abort$|::leak$|::into_raw$|^std::intrinsics::abort$|"
             r"^signal_hook::flag::register_conditional_shutdown$|^signal_hook::flag::register_conditional_default$|^signal_hook::low_level::(emulate_default_handler|exit|abort|raise)$|"
             r"^libc::(exit|_exit|abort|kill|raise)$|^nix::sys::signal::(kill|raise)$|^std::os::unix::process::CommandExt::exec$")
SELF_TERMINATION = r"register_conditional_(shutdown|default)$|emulate_default_handler$|process::(exit|abort)$|^libc::(exit|_exit|abort|kill|raise)$|signal::(kill|raise)$|low_level::(exit|abort|raise)$"


def rule_no_self_termination(ctx, facts, prefix):
    """nothing the program calls can end the process behind the run's back (between a rename and the
    lock write, or instead of the clean stop): process::exit/abort, signal-hook's conditional
    shutdown / default-handler emulation, libc exit/kill/raise."""
    from ..callgraph import CallGraph, leaf_def
    cg = CallGraph(facts)
    parent, leaves = cg.reach(roots=cg.roots)
    bad = {}
    for e in leaves:
        d = leaf_def(e)
        if re.search(SELF_TERMINATION, d) and d not in bad:
            bad[d] = e
    for d, e in sorted(bad.items()):
        ctx.bad(prefix, "self-termination|%s|%s" % (d, e["body"]),
                "`%s` can terminate the process in the middle of a run (after files were renamed, before the lock is written; or instead of the clean stop): %s" % (d, CallGraph.fmt_path(cg.path_to(parent, e))),
                "%s:%s" % (e["body"], e["line"]))
    if not bad:
        ctx.ok(prefix, "no self-termination API (process::exit/abort, conditional shutdown, default-handler emulation, kill/raise) among %d reachable external call edges" % len(leaves), "callgraph")
EXPECTED_ROLES = {"scratch-create": 1, "scratch-write": 3, "scratch-flush": 1, "scratch-sync": 1, "publish": 1,
                  "scratch-unlink": 1, "lock-write": 1}


def rule_closed_set(ctx, facts, prefix="C07-R1"):
    sites = edit.mutating_sites(facts)
    roles = {}
    for b, c in sites:
        role, why = edit.classify_site(facts, b, c)
        key = "%s|%s" % (b.id, c.name)
        if role is None:
            ctx.bad(prefix, "unexpected-writer|" + key, "filesystem mutation outside the atomic-replace protocol: %s" % why, c.where())
        else:
            roles[role] = roles.get(role, 0) + 1
            ctx.ok(prefix, "mutating call `%s` has role %s (path provenance checked)" % (c.name, role), c.where())
    for fn, rs in sorted(edit.wrappers(facts).items()):
        ctx.check(len(rs) == 1 and rs[0] != "unknown", prefix, "composite-wrapper|" + fn,
                  "helper `%s` performs one kind of storage step (%s), so the path rules can treat a call to it as that step" % (fn.split("::")[-1], "+".join(rs)), "")
    for role in ("scratch-create", "scratch-write", "publish", "scratch-unlink"):
        ctx.check(roles.get(role, 0) >= 1, prefix, "missing-role|" + role,
                  "the protocol's %s step exists (%d site(s))" % (role, roles.get(role, 0)), "")
    ctx.check(roles.get("publish", 0) == 1, prefix, "publish-count", "exactly one rename publishes a source file (%d)" % roles.get("publish", 0), "")
    return roles


def rule_complete_before_publish(ctx, facts, prefix="C07"):
    m = edit.anchor(ctx, facts, prefix + "-R2", edit.INSERT_MAP, "InsertReferencesProcessor::map (async body)")
    if m is None:
        return
    prov = Prov(m, stop_at=(r"AsyncTempFile::(path|file)$",))
    ops = edit.storage_ops(facts, m)
    by = {}
    for role, c in ops:
        by.setdefault(role, []).append(c)
    renames = by.get("publish", [])
    writes = by.get("scratch-write", [])
    flushes = by.get("scratch-flush", [])
    syncs = by.get("scratch-sync", [])
    if not ctx.check(len(renames) == 1 and len(writes) >= 2, prefix + "-R2", "anchor|write-rename",
                     "scratch writes (%d) and the publishing rename (%d) found" % (len(writes), len(renames)), m.where()):
        return
    R = renames[0]
    fb = [c.bb for c in flushes]
    sb = [c.bb for c in syncs]
    for w in writes:
        p = cfg.path_t(m, w.bb, [R.bb], avoid=fb)
        ctx.check(p is None, prefix + "-R2", "flush-after-write|%s" % _ord(writes, w),
                  "every path from scratch write #%s to the rename passes a flush of the scratch file" % _ord(writes, w), w.where(),
                  {"path_without_flush_lines": _lines(m, p)})
    if flushes:
        for f in flushes:
            p = cfg.path_t(m, f.bb, [R.bb], avoid=sb)
            ctx.check(p is None, prefix + "-R2", "sync-after-flush",
                      "every path from the flush to the rename passes sync_all/sync_data of the scratch file", f.where(),
                      {"path_without_sync_lines": _lines(m, p)})
    else:
        ctx.bad(prefix + "-R2", "no-flush", "the scratch file is never flushed before the rename", R.where())
    # R3: failed step never reaches the rename; every step's result is examined
    for role, c in ops:
        if role in ("publish", "unknown"):
            continue
        sw = edit.examining_switches(m, prov, c)
        key = "%s|%s" % (role, _ord(by[role], c))
        if not ctx.check(bool(sw), prefix + "-R3", "unexamined|" + key,
                         "the result of %s (%s) is examined by a match" % (c.name.split("::")[-1], role), c.where()):
            continue
        for (bb, err_arm, ok_arm) in sw:
            region = cfg.reach_t(m, err_arm)
            ctx.check(R.bb not in region, prefix + "-R3", "err-reaches-rename|" + key,
                      "the Err arm of %s (%s) cannot reach the rename" % (c.name.split("::")[-1], role), m.where(bb))
    # scratch creation itself: create Err -> Err
    t = facts.one(edit.TEMP_NEW)
    if ctx.check(t is not None, prefix + "-R3", "anchor|AsyncTempFile::new", "AsyncTempFile::new (async body) found", ""):
        tp = Prov(t)
        for c in t.calls_to(r"async_std::fs::File::create$"):
            sw = edit.examining_switches(t, tp, c)
            if not sw:
                # `File::create(..).await.map(..).map_err(..)` as the function's value: Err stays Err
                org0 = tp.origins(0)
                mapped = any(o[0] == "call" and o[1].bb == c.bb for o in org0) and all(x.matches(r"Result::<.*>::(map|map_err|and_then|or_else)$|::poll$|into_future$|new_unchecked$|get_context$") or x.bb == c.bb for x in t.calls if x.args and any(o[0] == "call" and o[1].bb == c.bb for o in tp.origins_op(x.args[0])))
                ctx.check(mapped, prefix + "-R3", "unexamined|create", "the result of File::create is examined or returned through map/map_err (an Err stays an Err)", c.where())
                continue
            ctx.ok(prefix + "-R3", "the result of File::create is examined", c.where())
            for (bb, err_arm, ok_arm) in sw:
                from ..common import return_values
                region = cfg.reach_t(t, err_arm)
                rets = [st for (rb, st) in return_values(t) if rb in region]
                good = rets and all(st["rv"]["k"] == "agg" and st["rv"].get("variant") == "Err" for st in rets)
                ctx.check(bool(good), prefix + "-R3", "create-err", "a failed File::create makes AsyncTempFile::new return Err", t.where(bb))


def rule_no_retry(ctx, facts, prefix="C07-R3"):
    """a failed scratch write is final: async-std's File keeps the partially drained cache, so a second
    write_all of the same chunk duplicates bytes that then get published. From the Err arm of every
    direct scratch write no further scratch write may be reachable, in the insert routine and in every
    local helper that writes."""
    n = 0
    for (b, c) in edit.mutating_sites(facts):
        role, _ = edit.classify_site(facts, b, c)
        if role != "scratch-write":
            continue
        prov = Prov(b, stop_at=edit.STOPS)
        others = [x for (bb2, x) in edit.mutating_sites(facts) if bb2.id == b.id and edit.classify_site(facts, bb2, x)[0] == "scratch-write"]
        for (sb, err_arm, ok_arm) in edit.examining_switches(b, prov, c):
            n += 1
            region = cfg.reach_t(b, err_arm)
            again = [x for x in others if x.bb in region]
            ctx.check(not again, prefix, "retry-after-failed-write|%s" % b.id.split("::")[-2 if b.id.endswith("}") else -1],
                      "after a failed scratch write nothing more is written to the scratch file (a retry would duplicate the bytes async-std already buffered)",
                      b.where(sb))
    ctx.ok(prefix, "scratch write results examined where they are produced: %d (results that are returned to the caller are examined there, rule unexamined|…)" % n, "")


def _ord(lst, c):
    return str(sorted(x.bb for x in lst).index(c.bb) + 1)


def _lines(body, p):
    if not p:
        return None
    return [body.blocks[b]["term"].get("line") for b in p][:40]


def rule_no_leak(ctx, facts, prefix="C07-R4"):
    n = 0
    for b in facts.non_test_bodies():
        for c in b.calls:
            n += 1
            if c.matches(FORBIDDEN):
                ctx.bad(prefix, "forbidden|%s|%s" % (b.id, c.name),
                        "`%s` can skip destructors / leak the scratch file or kill the process mid-protocol" % c.name, c.where())
    ctx.ok(prefix, "no mem::forget / ManuallyDrop / process::exit / abort / leak among %d call sites of the crate" % n, "")


class _OnlyPrefix:
    """ctx proxy keeping only obligations whose key starts with one of the prefixes (and renaming the rule)"""
    def __init__(self, ctx, rule, keys):
        self.ctx, self.rule, self.keys = ctx, rule, keys
        self.bin, self.lib, self.grammar, self.extra, self.tier, self.seed, self.prop = ctx.bin, ctx.lib, ctx.grammar, ctx.extra, ctx.tier, ctx.seed, ctx.prop

    def _keep(self, key):
        return any(key.startswith(k) for k in self.keys)

    def check(self, cond, rule, key, what, where="", detail=None):
        if self._keep(key):
            return self.ctx.check(cond, self.rule, key, what, where, detail)
        return cond

    def bad(self, rule, key, msg, where="", detail=None):
        if self._keep(key):
            self.ctx.bad(self.rule, key, msg, where, detail)

    def ok(self, *a, **k):
        pass

    def assume(self, *a):
        pass

    def note(self, *a):
        pass


def run(ctx):
    facts = ctx.bin
    # "no other file in the project is affected": the lock file is a project file; it is rewritten in place, so a kill or a
    # failing write leaves it truncated (same construct as C02-R5, reported here for this property's clause)
    from . import c02 as _c02
    _c02.rule_lock_atomic(_OnlyPrefix(ctx, "C07-R5", ("in-place|",)), facts, prefix="C07-R5")
    roles = rule_closed_set(ctx, facts)
    rule_complete_before_publish(ctx, facts)
    rule_no_retry(ctx, facts)
    rule_no_leak(ctx, facts)
    rule_no_self_termination(ctx, facts, "C07-R4")
    # "the file X is either untouched or completely replaced by *its* new content": what is written over X derives from
    # X's own bytes only, read in one strict read and handed to the edit unmodified (a shared read buffer that keeps the
    # part of another file read before an I/O error ends up, renamed atomically, in the next file)
    from . import c03 as _c03
    from .c09 import _run_as
    _run_as(_c03, _c03._Only(ctx, "C07-R6", ("read-exact", "contents-unmodified", "contents-passed", "partial-write", "copy-shape", "scratch-write-census",
                                             "writes-census", "copy-", "cursor", "tail", "anchor|")), ctx)
    ctx.assume("POSIX rename(2) atomically replaces the destination; fsync makes the scratch contents durable")
    ctx.assume("async-std's File buffers writes until flush (documented), and sync_all issues fsync")
    ctx.assume("a rename across filesystems fails with EXDEV without touching the destination (then C08 applies)")
    return {
        "explanation": "Publish-protocol rules on rustc MIR of the whole crate: every filesystem-mutating call site (%s) is "
                       "classified into a protocol role by the provenance of its path/file operand; on every CFG path of the "
                       "insert routine each scratch write is followed by flush and fsync before the single rename, and the "
                       "Err arm of every step is cut off from the rename." % ", ".join("%s×%d" % kv for kv in sorted(roles.items())),
        "trusted": ["rustc MIR", "sa/fsapi.py classification", "POSIX rename atomicity"],
    }
