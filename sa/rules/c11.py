"""C11 — comments, unconfigured macros and non-literal invocations are never touched.
Clause level only: comment rule shape incl. end-of-input, exact-match macro filter run before
any entry exists, mandatory literal, no backslash/ANY in FIRST of what follows `(`."""
from . import gram, finder


def run(ctx):
    g = ctx.grammar
    facts = ctx.bin
    # decoys are "never modified": an edit run rewrites the whole file from the text it read, so that text must be
    # the file's exact bytes (premise shared with C03-R1: a lossy decode or a stripped BOM changes comment text too)
    from . import c03
    from .c09 import _run_as
    _run_as(c03, c03._Only(ctx, "C11-R2", ("read-exact", "contents-unmodified", "contents-passed", "partial-write", "copy-shape", "scratch-write-census")), ctx)
    P = "C11-G"
    from .confimm import rule_config_as_loaded
    rule_config_as_loaded(ctx, facts, "C11-R1")
    gram.g2_comment(ctx, g, P)
    gram.g3_comment_eoi(ctx, g, P)
    gram.g4_non_atomic(ctx, g, P)
    gram.g5_name_atomic(ctx, g, P)
    gram.g7_literal_mandatory(ctx, g, P)
    gram.g8_no_backslash_first(ctx, g, P)
    gram.g16_strings_atomic(ctx, g, P)
    gram.g17_string_escapes(ctx, g, P)
    gram.g13_qualified(ctx, g, P)
    gram.g9_kvp_value(ctx, g, P)
    gram.g6_modifiers(ctx, g, P)
    gram.g12_scan_strings(ctx, g, P)
    gram.g18_message_not_key(ctx, g, P)
    # a comment is only a comment for a parser that saw where it began: the file's text is parsed whole, in one piece
    finder.rule_parse_complete(ctx, ctx.bin, "C11-R2")
    finder.rule_macro_filter(ctx, facts, "C11-R1")
    finder.rule_filter_before_entry(ctx, facts, "C11-R1")
    ctx.assume("pest semantics: COMMENT is tried between the elements of every non-atomic rule, including the scan loop of `file`")
    return {
        "explanation": "Necessary conditions decided from the grammar AST and rustc MIR: COMMENT is silent, has `//` and `/*` "
                       "alternatives with the right bodies, the line alternative may end at end of input; the macro filter is "
                       "whole-string equality over all configured macros and every entry is preceded by it; a literal message is "
                       "mandatory and an escaped quote can never follow `(`. Placement of decoys in arbitrary surroundings is PEG "
                       "behaviour and is not claimed.",
        "trusted": ["pest_meta parser/AST", "pest's documented matching semantics", "rustc MIR"],
    }
