"""The run's settings are what was loaded: after the configuration has been deserialised and the
context built, no field of Context / Config / RustConfig / RustLogMacro is written or mutably borrowed,
except the two the loader itself completes (config.config_dir, config.source_dir made absolute).
A later normalisation, defaulting or override of the macro list, the extensions, the mode flag, the
cache switch ... changes which statements / files / mode every pass works with."""
import re

ADTS = r"config::context::(Context|Config|RustConfig|RustLogMacro)\b"
ALLOWED = {("Context", ("config", "config_dir")), ("Context", ("config", "source_dir")),
           ("Config", ("config_dir",)), ("Config", ("source_dir",))}


def _base_adt(ty):
    t = re.sub(r"^(?:&\s*(?:'[a-z_0-9]+\s+)?(?:mut\s+)?)*", "", ty)
    m = re.match(r"^(?:crate::)?" + ADTS + r"$", t)
    return m.group(1) if m else None


def _path(p):
    return tuple(e.get("n") or str(e.get("f")) for e in p["p"] if isinstance(e, dict) and "f" in e)


def rule_config_as_loaded(ctx, facts, prefix):
    writes = []
    n = 0
    for b in facts.non_test_bodies():
        if re.search(r"::_::|_serde|Deserialize|Visitor|::fmt$", b.id):
            continue
        for bb in sorted(b.reachable_blocks()):
            blk = b.blocks[bb]
            sites = []
            for st in blk["stmts"]:
                if st["k"] != "assign":
                    continue
                if st["dst"]["p"]:
                    sites.append((st["dst"], "assigned", st.get("line")))
                rv = st["rv"]
                if rv["k"] in ("ref", "rawptr") and (rv.get("mut") or rv["k"] == "rawptr") and rv["place"]["p"]:
                    sites.append((rv["place"], "mutably borrowed", st.get("line")))
            t = blk["term"]
            if t["k"] == "call" and t["dst"]["p"]:
                sites.append((t["dst"], "assigned", t.get("line")))
            for (p, how, line) in sites:
                adt = _base_adt(b.local_ty(p["l"]))
                if adt is None:
                    continue
                path = _path(p)
                if not path:
                    continue
                n += 1
                if (adt, path) in ALLOWED or (adt, path[:2]) in ALLOWED and len(path) == 2:
                    continue
                writes.append((b, bb, adt, path, how, line))
    ctx.check(n >= 2, prefix, "config-writes-anchor", "the loader's own completions of the configuration were seen (%d field writes on Context/Config values)" % n, "")
    ctx.check(not writes, prefix, "config-as-loaded",
              "no setting is changed after loading (only config_dir / source_dir are completed by the loader); found: %s"
              % ([("%s.%s %s in %s" % (a, ".".join(pa), how, b.id)) for (b, bb, a, pa, how, line) in writes][:4] or "none"),
              writes[0][0].where(writes[0][1]) if writes else "")
