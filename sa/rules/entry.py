"""LogRefEntry is a plain record: what the finder stores is what every pass reads.

Rules shared by C01, C05, C12 (and anything that reasons about `exists()` / `reference()`):
  new-stores       LogRefEntry::new moves each argument, unmodified, into the field of the same name
  reference()      returns the `reference` field, unmodified
  exists()         is true exactly when the `reference` field is Some
  position()       returns the `position` field
A conversion on the way in or out (a niche type, a `> 0` test, a default) makes one pass see a
reference that another pass does not see."""
from ..common import single_def, return_values, trace_bool, enum_switch
from ..facts import op_place, op_const
from .. import cfg


def _field_read(body, op, depth=0):
    """name of the field of `self` that operand `op` is a direct copy / reference of (no call in between)"""
    p = op_place(op) if isinstance(op, dict) and ("copy" in op or "move" in op) else op
    if p is None or depth > 8:
        return None
    names = [e.get("n") for e in p["p"] if isinstance(e, dict) and "f" in e]
    other = [e for e in p["p"] if e != "*" and not (isinstance(e, dict) and "f" in e)]
    if p["l"] == 1 and body.arg_count >= 1 and not body.defs.get(1):
        return names[0] if len(names) == 1 and not other else None
    if names or other:
        return None
    d = single_def(body, p["l"])
    if d is None or d[1] != "assign":
        return None
    rv = d[2]["rv"]
    if rv["k"] == "use":
        return _field_read(body, rv["op"], depth + 1)
    if rv["k"] in ("ref", "rawptr"):
        return _field_read(body, rv["place"], depth + 1)
    return None


def _root_param(body, op, depth=0):
    p = op_place(op)
    if p is None or p["p"] or depth > 6:
        return None
    l = p["l"]
    if 1 <= l <= body.arg_count and not body.defs.get(l):
        return l
    d = single_def(body, l)
    if d and d[1] == "assign" and d[2]["rv"]["k"] == "use":
        return _root_param(body, d[2]["rv"]["op"], depth + 1)
    return None


def rule_entry_record(ctx, facts, P):
    E = r"code_parser::LogRefEntry::%s$"
    newf = facts.one(E % "new")
    if ctx.check(newf is not None, P, "anchor|LogRefEntry::new", "LogRefEntry::new found", ""):
        aggs = [(bb, st) for bb in sorted(newf.reachable_blocks()) for st in newf.blocks[bb]["stmts"]
                if st["k"] == "assign" and st["rv"]["k"] == "agg" and st["rv"].get("adt", "").endswith("LogRefEntry")]
        ok = len(aggs) == 1
        detail = []
        if ok:
            rv = aggs[0][1]["rv"]
            for fname, o in zip(rv.get("fields", []), rv["ops"]):
                k = _root_param(newf, o)
                pname = newf.locals[k].get("name") if k else None
                detail.append("%s<-%s" % (fname, pname))
                if pname != fname:
                    ok = False
            ok = ok and len(rv.get("fields", [])) == len(rv["ops"]) >= 4
        ctx.check(ok, P, "entry-new-stores", "LogRefEntry::new moves each argument unmodified into the field of the same name (%s)" % ", ".join(detail), newf.where())
    rf = facts.one(E % "reference")
    if ctx.check(rf is not None, P, "anchor|LogRefEntry::reference", "LogRefEntry::reference found", ""):
        rvs = return_values(rf)
        good = bool(rvs) and not rf.calls
        for (bb, st) in rvs:
            rv = st["rv"]
            good = good and rv["k"] == "use" and _field_read(rf, rv["op"]) == "reference"
        ctx.check(good, P, "entry-reference-getter", "reference() returns the `reference` field unmodified", rf.where())
    ef = facts.one(E % "exists")
    if ctx.check(ef is not None, P, "anchor|LogRefEntry::exists", "LogRefEntry::exists found", ""):
        good = False
        why = "form not recognised"
        rets = [bb for bb in ef.reachable_blocks() if ef.term(bb)["k"] == "return"]
        k, pl, neg = trace_bool(ef, {"move": {"l": 0, "p": []}})
        if k == "call" and len(ef.calls) == 1:
            if pl.matches(r"Option::<.*>::is_some$") and not neg and _field_read(ef, pl.args[0]) == "reference":
                good, why = True, "reference.is_some()"
            elif pl.matches(r"Option::<.*>::is_none$") and neg and _field_read(ef, pl.args[0]) == "reference":
                good, why = True, "!reference.is_none()"
            else:
                why = "decided by %s%s" % ("!" if neg else "", pl.name)
        elif not ef.calls:
            # match / matches! on the field's discriminant
            for bb in sorted(ef.reachable_blocks()):
                es = enum_switch(ef, bb)
                if es is None:
                    continue
                place, arms, other = es
                if _field_read(ef, place) != "reference":
                    continue
                vals = {}
                for v, tgt in list(arms.items()) + ([("other", other)] if other is not None else []):
                    cs = set()
                    for b2 in cfg.reach(ef, [tgt]):
                        for st in ef.blocks[b2]["stmts"]:
                            if st["k"] == "assign" and st["dst"]["l"] == 0 and not st["dst"]["p"] and st["rv"]["k"] == "use":
                                c = op_const(st["rv"]["op"])
                                cs.add(c.get("int") if c else "?")
                    vals[v] = cs
                # variant 1 = Some, 0 = None
                some = vals.get(1, vals.get("other"))
                none = vals.get(0, vals.get("other"))
                if some == {1} and none == {0}:
                    good, why = True, "match on reference: Some=>true, None=>false"
                else:
                    why = "match on reference yields %s" % vals
        ctx.check(good, P, "entry-exists", "exists() is true exactly when the `reference` field is Some (%s)" % why, ef.where())
    pf = facts.one(E % "position")
    if ctx.check(pf is not None, P, "anchor|LogRefEntry::position", "LogRefEntry::position found", ""):
        good = not pf.calls
        for (bb, st) in return_values(pf):
            rv = st["rv"]
            src = rv.get("place") if rv["k"] in ("ref", "rawptr") else rv.get("op")
            good = good and src is not None and _field_read(pf, src) == "position"
        ctx.check(good, P, "entry-position-getter", "position() returns the `position` field", pf.where())
