"""C17 — no input makes Breadlog panic or hang (panic clause, Breadlog's own hand-written code).

R1 RK7 panic-site audit: every `Assert` terminator and every call into a may-panic API in the
   hand-written, non-test bodies of the crate is enumerated from MIR and must be discharged,
   either by a recognised dominating guard (auto) or by a row of the reviewed table below
   (key = function + operation + operand signature, never a line number). A new site, or a
   site whose required guard disappeared, is a violation.
R2 the grammar has no recursive rule (bounded parser stack, no exponential re-parsing of
   nested constructs) and the pairs under `file` are exactly those the pair walk handles
   (so its `unreachable!()` is unreachable).
R3 a file that cannot be read as text is logged and skipped; the other files are processed.
NOT decided: run time in general (pest backtracking and line_col rescans are data dependent),
panics inside dependencies, memory exhaustion.
"""
import re
from .. import cfg, rx
from ..common import (call_chain, trace_bool, bool_switch_targets, enum_switch, return_values, single_def)
from ..facts import op_place, op_const, rv_str
from ..prov import Prov
from . import gram, finder, edit

MAY_PANIC = (r"::unwrap$|::expect$|::unwrap_err$|::expect_err$|ops::Index<.*>::index$|ops::IndexMut<.*>::index_mut$|::index$|::index_mut$|"
             r"^core::panicking::|^std::rt::begin_panic|^std::panicking::|::insert_str$|::insert$|::remove$|::swap_remove$|::split_at$|::split_off$|"
             r"::drain$|::truncate$|::copy_from_slice$|RefCell<.*>::borrow(_mut)?$|::borrow_mut$|::swap$|::set_len$|::from_utf8_unchecked$|"
             r"::get_unchecked(_mut)?$|::unwrap_unchecked$|::block_on$|::replace_range$|::char_at$|::nth_back$|::step_by$|::chunks(_exact)?$|::windows$|"
             r"::rotate_(left|right)$|::div_euclid$|::rem_euclid$|::pow$|::abs$|::repeat$|::with_capacity$|::reserve$")
# calls in the table above that cannot panic in this code's use and are too common to list one by one
NEVER = r"HashMap.*::insert$|HashSet.*::insert$|BTreeMap.*::insert$|Vec::<.*>::with_capacity$|::reserve$|task::block_on$|async_std::task::.*block_on"


def handwritten(facts):
    out = []
    for b in facts.non_test_bodies():
        fe = b.j.get("from_expansion") or ""
        if "derive" in fe or "Parser" in fe:
            continue
        if re.search(r"RustParser|::rules::|::_serde::|<impl .*_serde|ProgArgs as clap|__CALLSITE|__static_ref_initialize|::__stability|LazyStatic>::initialize", b.id):
            if not b.id.endswith("__static_ref_initialize"):
                continue
        if b.kind in ("AnonConst", "Const { is_type_const: false }", "AssocConst { is_type_const: false }", "Static { safety: Safe, mutability: Not, nested: false }"):
            continue
        if b.kind.startswith(("Const", "AssocConst", "Static", "AnonConst", "InlineConst")):
            continue
        out.append(b)
    return out


def describe(body, op, depth=0):
    c = op_const(op)
    if c is not None:
        if "int" in c:
            return str(c["int"])
        if "str" in c:
            return repr(c["str"])[:30]
        return c.get("unevaluated") or "const"
    p = op_place(op)
    if p is None:
        return "?"
    return describe_place(body, p, depth)


def describe_place(body, p, depth=0):
    l = p["l"]
    proj = "".join("." + str(e.get("n", e.get("f"))) for e in p["p"] if isinstance(e, dict) and "f" in e)
    if body.kind.startswith(("closure", "coroutine")) and l == 1:
        for u in body.j.get("upvars", []):
            fs = [e["f"] for e in u["place"]["p"] if isinstance(e, dict) and "f" in e]
            fs2 = [e["f"] for e in p["p"] if isinstance(e, dict) and "f" in e]
            if fs and fs2 and fs[0] == fs2[0]:
                return u["name"]
        return "env" + proj
    ds0 = body.defs.get(l, [])
    if len(ds0) == 1 and ds0[0][1] == "assign" and ds0[0][2].get("inlined_arg") and ds0[0][2]["rv"]["k"] == "use" and depth <= 6:
        # a parameter of an inlined helper: describe what the caller passed
        return describe(body, ds0[0][2]["rv"]["op"], depth + 1) + proj
    nm = body.local_name(l)
    if nm and len(ds0) == 1 and ds0[0][1] == "assign" and ds0[0][2]["rv"]["k"] == "use" and depth <= 6:
        # `let (line, column) = x.line_col()`: a name bound to one component of a call's result is an alias
        q = op_place(ds0[0][2]["rv"]["op"])
        if q is not None and any(isinstance(e, dict) and "f" in e for e in q["p"]) and not body.local_name(q["l"]) \
                and not any(isinstance(e, dict) and "downcast" in e for e in q["p"]) and body.local_ty(q["l"]).startswith("("):
            qd = body.defs.get(q["l"], [])
            if len(qd) == 1 and qd[0][1] == "call":
                return describe_place(body, q, depth + 1) + proj
    if nm:
        return nm + proj
    if 1 <= l <= body.arg_count:
        return "arg%d%s" % (l, proj)
    if depth > 6:
        return "tmp" + proj
    ds = body.defs.get(l, [])
    if len(ds) != 1:
        return "tmp" + proj
    bb, kind, d = ds[0]
    if kind == "call":
        short = d.name.split("::")[-1]
        recv = describe(body, d.args[0], depth + 1) if d.args else ""
        return "%s(%s)%s" % (short, recv, proj)
    rv = d["rv"]
    if rv["k"] == "use":
        return describe(body, rv["op"], depth + 1) + proj
    if rv["k"] in ("ref", "rawptr"):
        return describe_place(body, rv["place"], depth + 1) + proj
    if rv["k"] == "bin":
        return "%s(%s,%s)%s" % (rv["op"].replace("WithOverflow", ""), describe(body, rv["a"], depth + 1), describe(body, rv["b"], depth + 1), proj)
    if rv["k"] == "agg":
        head = rv.get("adt", rv["agg"]).split("::")[-1]
        return "%s{%s}%s" % (head, ",".join(describe(body, o, depth + 1) for o in rv["ops"]), proj)
    if rv["k"] == "cast":
        return "cast(%s)%s" % (describe(body, rv["op"], depth + 1), proj)
    return "tmp" + proj


def fully_inlined(facts):
    return facts.fully_inlined()


def sites(facts):
    out = []
    skip = fully_inlined(facts)
    for b in handwritten(facts):
        if b.id in skip:
            continue
        live = b.reachable_blocks()
        for bb in sorted(live):
            t = b.term(bb)
            if t["k"] == "assert":
                # find the arithmetic that feeds the assert condition
                sig = t["msg"]
                cond = op_place(t["cond"])
                if cond is not None:
                    d = single_def(b, cond["l"])
                    if d and d[1] == "assign" and d[2]["rv"]["k"] == "bin":
                        rv = d[2]["rv"]
                        sig = "%s(%s,%s):%s" % (rv["op"].replace("WithOverflow", ""), describe(b, rv["a"]), describe(b, rv["b"]), rv.get("ty", ""))
                    elif t["msg"] == "BoundsCheck":
                        sig = "BoundsCheck"
                out.append({"body": b, "bb": bb, "kind": "assert", "op": t["msg"].split(":")[0], "sig": sig, "line": t.get("line")})
            elif t["k"] == "call":
                from ..facts import Call
                c = Call(b, bb, t)
                if not c.matches(MAY_PANIC) or c.matches(NEVER):
                    continue
                if any(m in (c.exp or "") for m in ("event!", "valueset!", "tracing", "log!")):
                    continue  # inside a tracing / log macro expansion (the macro's own invariant)
                short = c.name.split("::")[-1]
                if "panicking" in c.name or "begin_panic" in c.name:
                    short = "panic"
                args = ",".join(describe(b, a) for a in c.args[:3])
                kind = ""
                mm = re.search(r"Index<([^>]*(?:<[^>]*>)?[^>]*)>", c.func.get("full", ""))
                if short in ("index", "index_mut") and mm:
                    kind = "[" + mm.group(1).replace("std::ops::", "") + "]"
                out.append({"body": b, "bb": bb, "kind": "call", "op": short, "sig": "%s%s(%s)" % (short, kind, args), "line": t.get("line"), "call": c})
    return out


def key_of(s):
    return "%s|%s" % (s["body"].id, s["sig"])


def auto_discharge(facts, s, cache):
    """returns a reason string when the site is discharged by a recognised idiom, else None"""
    b = s["body"]
    sig = s["sig"]
    # 0. x + 0 / x - 0 cannot overflow
    if s["kind"] == "assert" and re.match(r"^(Add|Sub)\(.*,0\):", sig):
        return "adding / subtracting the constant 0"
    # 1. Sub dominated by the failing arm of the matching `<`
    if s["kind"] == "assert" and sig.startswith("Sub("):
        m = re.match(r"Sub\((.*),(.*)\):", sig)
        if m:
            a, c = m.group(1), m.group(2)
            dom = cfg.dominators(b)
            for sb in dom.get(s["bb"], ()):
                t = b.term(sb)
                if t["k"] != "switch":
                    continue
                k, pl, neg = trace_bool(b, t["discr"])
                if k == "bin" and pl["rv"]["op"] in ("Lt", "Ge", "Gt", "Le"):
                    x, y = describe(b, pl["rv"]["a"]), describe(b, pl["rv"]["b"])
                    tt, ft = bool_switch_targets(b, sb)
                    if neg:
                        tt, ft = ft, tt
                    op = pl["rv"]["op"]
                    # need a >= c on the arm that dominates the site
                    arm_ge = None
                    if (x, y) == (a, c):
                        arm_ge = ft if op == "Lt" else (tt if op in ("Ge", "Gt") else None)
                    elif (x, y) == (c, a):
                        arm_ge = ft if op == "Gt" else (tt if op in ("Le", "Lt") else None)
                    if arm_ge is not None and arm_ge in dom.get(s["bb"], ()):
                        return "subtraction dominated by the guard `%s %s %s` (other arm)" % (x, op, y)
        return None
    # 1b. `i + 1` / a slice bounds check `i < len`, dominated by the true side of a comparison `i < n`:
    #     i < n <= usize::MAX, so i + 1 cannot overflow; and when n is the length of the indexed slice the bounds
    #     check repeats the guard
    if s["kind"] == "assert" and (re.match(r"^Add\((.*),1\):usize$", sig) or sig.startswith("Lt(") or sig == "BoundsCheck"):
        m = re.match(r"^(Add|Lt)\((.*),(.*)\):?", sig)
        if m:
            i_desc, rhs = m.group(2), m.group(3)
            dom = cfg.dominators(b)
            for sb in dom.get(s["bb"], ()):
                t = b.term(sb)
                if t["k"] != "switch":
                    continue
                k, pl, neg = trace_bool(b, t["discr"])
                if k != "bin" or pl["rv"]["op"] not in ("Lt", "Gt"):
                    continue
                x, y = describe(b, pl["rv"]["a"]), describe(b, pl["rv"]["b"])
                small, big, big_op = (x, y, pl["rv"]["b"]) if pl["rv"]["op"] == "Lt" else (y, x, pl["rv"]["a"])
                tt, ft = bool_switch_targets(b, sb)
                if neg:
                    tt, ft = ft, tt
                if small != i_desc or tt not in dom.get(s["bb"], ()):
                    continue
                # the guarded variable must not be written between the guard and the site
                named = [i for i, l in enumerate(b.locals) if l.get("name") == i_desc]
                if len(named) != 1:
                    continue
                between = cfg.reach(b, [tt], avoid=[sb]) & {x for x in b.reachable_blocks() if s["bb"] in cfg.reach(b, [x], avoid=[sb])}
                between.discard(s["bb"]) if False else None
                written = False
                for bb2 in between:
                    for st2 in b.blocks[bb2]["stmts"]:
                        if st2["k"] == "assign" and st2["dst"]["l"] == named[0] and not (bb2 == s["bb"]):
                            written = True
                    t2 = b.term(bb2)
                    if t2["k"] == "call" and t2.get("dst", {}).get("l") == named[0] and bb2 != s["bb"]:
                        written = True
                if written:
                    continue
                if m.group(1) == "Add":
                    return "`%s + 1` dominated by the guard `%s < %s` (so it is below usize::MAX)" % (i_desc, small, big)
                # bounds check: the guard's right side is the length of the slice that is indexed
                if re.search(r"(^|[^a-z_])len\(", big) or "PtrMetadata" in big or big == rhs:
                    return "bounds check dominated by the guard `%s < %s`" % (small, big)
        if not sig.startswith("Add("):
            return None
    # 2. Regex::new(<literal>).unwrap() when the literal compiles
    if s["kind"] == "call" and s["op"] == "unwrap" and sig.startswith("unwrap(new('"):
        lits = [(c, l) for (c, l) in rx.regex_literals(facts, re.escape(b.id) + "$") if c.dst["l"] == op_place(s["call"].args[0])["l"]]
        if len(lits) == 1 and lits[0][1] is not None:
            i = rx.info(lits[0][1])
            if i.get("ok"):
                return "Regex::new on the literal %r, which compiles" % lits[0][1]
        return None
    # 3. Captures[1] when the regex has a mandatory group 1
    if s["kind"] == "call" and s["op"] == "index" and "[usize]" in sig and "extract_reference" in b.id:
        lits = rx.regex_literals(facts, r"LogRefEntry::extract_reference::")
        k = op_const(s["call"].args[1])
        if len(lits) == 1 and lits[0][1] and k is not None and k.get("int") == 1:
            i = rx.info(lits[0][1])
            e = rx.subset(lits[0][1], r"^\[ref: ([0-9]{1,10})\]")
            if i.get("explicit_captures", 0) >= 1 and e.get("holds"):
                return "capture group 1 exists and participates in every match of %r" % lits[0][1]
        return None
    # 4. str / byte-slice indexing whose bounds are pest span offsets of the same text
    if s["kind"] == "call" and s["op"] == "index":
        c = s["call"]
        full = c.func.get("full", "")
        rng = single_def(b, op_place(c.args[1])["l"]) if op_place(c.args[1]) else None
        if rng and rng[1] == "assign" and rng[2]["rv"]["k"] == "agg":
            ops = rng[2]["rv"]["ops"]
            descs = [describe(b, o) for o in ops]
            span_bounds = all(re.match(r"(start|end)\(", d) for d in descs)
            root0 = call_chain(b, c.args[0])[1]
            if span_bounds and root0[0] == "param" and b.local_ty(root0[1]) in ("&str", "&'static str"):
                return "bounds are start()/end() of a pest span over the same &str (char boundaries, start <= end <= len)"
    return None


def rule_panic_audit(ctx, facts, P="C17-R1"):
    ss = sites(facts)
    hb = handwritten(facts)
    ctx.check(len(hb) >= 40 and len(ss) >= 20, P, "anchor|coverage", "hand-written bodies audited: %d, panic sites enumerated: %d (floors 40 / 20)" % (len(hb), len(ss)), "")
    from .c17_table import TABLE, guard_check
    cache = {}
    n_auto = n_tab = 0
    used = {}
    for s in ss:
        key = key_of(s)
        where = "%s:%s" % (s["body"].file_short, s["line"])
        why = auto_discharge(facts, s, cache)
        if why:
            n_auto += 1
            ctx.ok(P, "panic site `%s` in %s discharged: %s" % (s["sig"], s["body"].id.split("::")[-1], why), where)
            continue
        rows = TABLE.candidates(key)
        if not rows:
            ctx.bad(P, "site|" + key, "undischarged panic site `%s` (%s) — not covered by a guard idiom or a reviewed row" % (s["sig"], s["kind"]), where)
            continue
        done = False
        last = ""
        for row in rows:
            if used.get(row["row"], 0) >= row.get("max", 1):
                last = "more sites of this shape than the reviewed row covers (%d)" % row.get("max", 1)
                continue
            g_ok, g_why = guard_check(facts, s, row)
            if g_ok:
                used[row["row"]] = used.get(row["row"], 0) + 1
                n_tab += 1
                ctx.ok(P, "panic site `%s` discharged by reviewed row: %s%s" % (s["sig"], row["why"], (" [guard: %s]" % g_why) if g_why else ""), where)
                done = True
                break
            last = "the guard its reviewed row relies on does not hold (%s)" % g_why
        if not done:
            ctx.bad(P, "guard|" + key, "panic site `%s`: %s" % (s["sig"], last), where)
    ctx.note("panic sites: %d auto-discharged, %d by reviewed rows, table size %d" % (n_auto, n_tab, len(TABLE)))


def run(ctx):
    facts = ctx.bin
    g = ctx.grammar
    rule_panic_audit(ctx, facts, "C17-R1")
    # ---- R2 grammar ------------------------------------------------------------------------------
    P = "C17-R2"
    prod = gram.g11_no_recursion(ctx, g, P)
    f = facts.one(finder.FIND)
    if f is not None and prod is not None:
        hr = finder.handled_rules(f, facts)
        outer = [h for h in hr if "log_macro" in h[1]]
        if ctx.check(len(outer) == 1, P, "anchor|outer-match", "the match over the file's pairs found", f.where()):
            bb, arms, otherwise, asr = outer[0]
            ctx.check(prod <= set(arms), P, "walk-covers", "every pair the grammar can put under `file` has an arm (%s ⊆ %s), so the `_ => unreachable!()` arm cannot run" % (sorted(prod), sorted(arms)), f.where(bb))
    # parse failure and empty result are handled without panic
    if f is not None:
        pc = f.calls_to(r"pest::Parser<.*>::parse$|RustParser as pest::Parser.*::parse$|::parse$")
        pc = [c for c in pc if "RustParser" in c.func.get("full", "") or "pest::Parser" in (c.declared or "")]
        if ctx.check(len(pc) == 1, P, "anchor|parse", "the pest parse call found", f.where()):
            es = enum_switch(f, pc[0].target)
            ctx.check(es is not None, P, "parse-error-handled", "a parse error is matched (returns the empty list), never unwrapped", pc[0].where())
    # ---- R3 unreadable file ----------------------------------------------------------------------
    P = "C17-R3"
    lc = facts.one(r"generate::load_code::\{closure#0\}$")
    if ctx.check(lc is not None, P, "anchor|load_code", "load_code (async body) found", ""):
        rd = lc.calls_to(r"async_std::fs::read_to_string$")
        prov = Prov(lc)
        if ctx.check(len(rd) == 1, P, "read-call", "files are read with read_to_string (UTF-8 validated; invalid text is an Err, not a panic)", lc.where()):
            for (bb, err_arm, ok_arm) in edit.examining_switches(lc, prov, rd[0]):
                rets = [st for (rb, st) in return_values(lc) if rb in cfg.reach_t(lc, err_arm)]
                ctx.check(bool(rets) and all(s["rv"].get("variant") == "None" for s in rets), P, "read-error-none", "a read / decoding error yields None", lc.where(bb))
                logs = [c for c in lc.calls if c.bb in cfg.reach_t(lc, err_arm) and c.matches(r"task::spawn")]
                ctx.check(bool(logs), P, "read-error-logged", "…and is reported", lc.where(bb))
    pr = facts.one(edit.PROCESS)
    if ctx.check(pr is not None, P, "anchor|process_references", "process_references async block found", ""):
        prov = Prov(pr)
        lcalls = pr.calls_to(r"generate::load_code$")
        nx = [c for c in pr.calls_to(r"Iterator>::next$") if any(o[0] == "upvar" and o[1] == "finder" for o in prov.origins_op(c.args[0]))]
        if ctx.check(len(lcalls) == 1 and len(nx) == 1, P, "anchor|file-loop", "per-file loop found", pr.where()):
            sw = None
            for bb in sorted(pr.reachable_blocks()):
                es = enum_switch(pr, bb)
                if es and not es[0]["p"] and pr.local_ty(es[0]["l"]).startswith("std::option::Option<std::string::String"):
                    o = prov.origins(es[0]["l"])
                    if any(x[0] == "call" and x[1].bb == lcalls[0].bb for x in o):
                        sw = (bb, es)
            if ctx.check(sw is not None, P, "load-result-matched", "the Option from load_code is matched (not unwrapped)", lcalls[0].where()):
                bb, (place, arms, otherwise) = sw
                none_arm = arms.get(0, otherwise)
                p = cfg.path(pr, none_arm, [nx[0].bb])
                rets = [rb for (rb, st) in return_values(pr) if rb in cfg.reach(pr, [none_arm], avoid=[nx[0].bb])]
                ctx.check(p is not None and not rets, P, "skip-continues", "an unreadable file is skipped and the loop continues with the next file", pr.where(bb))
    ctx.assume("dependencies (pest, regex, serde_yaml, walkdir, async-std, clap) do not panic on the values Breadlog passes them")
    ctx.assume("ordinary-shape inputs: fewer than 2^32 log statements; path names are valid UTF-8 or are skipped")
    return {
        "explanation": "RK7 panic-site audit on rustc MIR (dev profile, overflow checks on): every Assert terminator and every call "
                       "into a may-panic std API in the hand-written bodies is enumerated and must be discharged by a dominating-guard "
                       "idiom or a reviewed row keyed by function+operation+operand signature (rows can require guard facts). "
                       "Grammar: no recursion, pair-walk exhaustiveness. Unreadable-file skip path. Run-time bounds are not claimed.",
        "trusted": ["rustc MIR", "sa/rules/c17_table.py reviewed rows", "pest_meta AST"],
    }
