"""C18 — SIGINT and SIGTERM stop a run cleanly.

R1 signal set: the signal-number operand of every signal_hook registration whose flag is the
   context's stop flag is a *constant single signal* (never an arithmetic/bitwise result), and
   the union of those constants ⊇ {2 (SIGINT), 15 (SIGTERM)}.
R2 registration happens for both modes (not inside the region of one mode), before either
   driver is called, and a registration error leads to a non-zero exit.
R3 polling: in the per-file loop the stop flag is loaded on every path from the iterator's
   `next` to the file being read, and a set flag leads only to `None` (no further file is
   loaded, no reduce result is produced). Same for the discovery walk (-> `false`).
R4 interrupted => non-zero: in both drivers the Option returned by every process_references
   call is consumed only by a match whose None arm reaches only `Err` returns.
R5 files whole / lock covers: C07-R2,R3 and C02-R2,R3 (run here as well).
"""
import re
from .. import cfg
from ..common import (return_values_r, only_err_returns, trace_bool, bool_switch_targets, enum_switch, ty_variants, single_def,
                      return_values, field_switches, dominated_region)
from ..facts import op_place, op_const, rv_str
from ..prov import Prov
from ..interproc import creation_site

REGISTER = r"^signal_hook::(flag::register$|flag::register_usize$|low_level::register|iterator::)"
SIGINT, SIGTERM = 2, 15
VALID_SIGNALS = set(range(1, 32))
DRIVERS = r"generate::(check_references|generate_code)$"


def is_err_agg(st):
    rv = st["rv"]
    return rv["k"] == "agg" and rv.get("agg") == "adt" and rv["adt"].endswith("Result") and rv["variant"] == "Err"


def is_ok_agg(st):
    rv = st["rv"]
    return rv["k"] == "agg" and rv.get("agg") == "adt" and rv["adt"].endswith("Result") and rv["variant"] == "Ok"


def is_none_agg(st):
    rv = st["rv"]
    return rv["k"] == "agg" and rv.get("agg") == "adt" and rv["adt"].endswith("Option") and rv["variant"] == "None"


def stop_flag_loads(body, prov):
    """calls `Atomic<bool>::load` whose receiver derives from the stop flag (field
    stop_commanded of the context, or a captured variable bound to a clone of it)"""
    out = []
    for c in body.calls_to(r"atomic::Atomic::<bool>::load$|AtomicBool::load$"):
        org = prov.origins_op(c.args[0])
        ok = False
        for o in org:
            if o[0] == "upvar" and isinstance(o[1], str) and re.search(r"stop", o[1]):
                ok = True
            if o[0] in ("param",):
                ok = ok or _has_field(body, c.args[0], "stop_commanded")
        if _has_field(body, c.args[0], "stop_commanded"):
            ok = True
        if ok:
            out.append(c)
    return out


def _has_field(body, op, field, depth=0):
    """does the ref/copy chain behind `op` project a field named `field`?"""
    p = op_place(op)
    if p is None or depth > 10:
        return False
    for e in p["p"]:
        if isinstance(e, dict) and e.get("n") == field:
            return True
    for (bb, kind, d) in body.defs.get(p["l"], []):
        if kind == "assign":
            rv = d["rv"]
            if rv["k"] in ("ref", "rawptr"):
                for e in rv["place"]["p"]:
                    if isinstance(e, dict) and e.get("n") == field:
                        return True
                if _has_field(body, {"copy": {"l": rv["place"]["l"], "p": []}}, field, depth + 1):
                    return True
            elif rv["k"] == "use":
                if _has_field(body, rv["op"], field, depth + 1):
                    return True
        else:
            if d.matches(r"::deref$|::clone$|::as_ref$|::borrow$") and d.args:
                if _has_field(body, d.args[0], field, depth + 1):
                    return True
    return False


def consumers(body, local):
    """How the value produced into `local` is used: follows moves/copies; returns
    (carriers, [Call] it is passed to, [bb] of discriminant reads)."""
    carriers = {local}
    changed = True
    while changed:
        changed = False
        for bb in body.reachable_blocks():
            for st in body.blocks[bb]["stmts"]:
                if st["k"] != "assign":
                    continue
                rv = st["rv"]
                if rv["k"] == "use":
                    p = op_place(rv["op"])
                    if p and p["l"] in carriers and not p["p"] and not st["dst"]["p"]:
                        if st["dst"]["l"] not in carriers:
                            carriers.add(st["dst"]["l"])
                            changed = True
                elif rv["k"] == "ref":
                    p = rv["place"]
                    if p["l"] in carriers and not p["p"] and st["dst"]["l"] not in carriers:
                        carriers.add(st["dst"]["l"])
                        changed = True
    calls = []
    for c in body.calls:
        for a in c.args:
            p = op_place(a)
            if p and p["l"] in carriers and not p["p"]:
                calls.append(c)
    discr = []
    for bb in body.reachable_blocks():
        for st in body.blocks[bb]["stmts"]:
            if st["k"] == "assign" and st["rv"]["k"] == "discr" and st["rv"]["place"]["l"] in carriers:
                discr.append(bb)
    return carriers, calls, discr


RUNS_ALL = r"Iterator>?::(try_for_each|for_each)$|::(try_for_each|for_each)$"   # the closure runs for every element (until it reports a failure)


def _closure_driver(facts, kb):
    """for a registration inside a closure: (body, adaptor call, closure creation stmt) where the closure is handed
    to an iterator adaptor — looked up in the flattened bodies, skipping helpers that only exist inlined"""
    skip = facts.fully_inlined()
    out = []
    for pb in facts.non_test_bodies():
        if pb.id in skip:
            continue
        for bb in sorted(pb.reachable_blocks()):
            for st in pb.blocks[bb]["stmts"]:
                if st["k"] == "assign" and st["rv"]["k"] == "agg" and st["rv"].get("def") == kb.id and not st["dst"]["p"]:
                    cl = st["dst"]["l"]
                    for a in pb.calls:
                        for arg in a.args:
                            p = op_place(arg)
                            if p is not None and not p["p"] and (p["l"] == cl or _copy_of_local(pb, p["l"], cl)):
                                out.append((pb, a, st))
    return out


def _copy_of_local(body, l, target, depth=0):
    d = single_def(body, l)
    if d and d[1] == "assign" and d[2]["rv"]["k"] == "use" and depth < 4:
        p = op_place(d[2]["rv"]["op"])
        if p is not None and not p["p"]:
            return p["l"] == target or _copy_of_local(body, p["l"], target, depth + 1)
    return False


def rule_signal_set(ctx, facts):
    sites = []
    skip = facts.fully_inlined()
    for b in facts.non_test_bodies():
        if b.id in skip:
            continue
        for c in b.calls_to(REGISTER):
            sites.append((b, c))
    # a registration written as `signals.into_iter().try_for_each(|s| register(s, flag))`: the site that matters for
    # ordering and error handling is the adaptor call; the signals are the elements of the iterated array
    eff = []
    for (b, c) in sites:
        if not b.kind.startswith("closure"):
            eff.append((b, c, None))
            continue
        drv = _closure_driver(facts, b)
        if len(drv) == 1:
            eff.append((b, c, drv[0]))
        else:
            eff.append((b, c, None))
    ctx.check(len(sites) >= 1, "C18-R1", "registration-anchor",
              "signal registration site(s) exist (%d found)" % len(sites),
              ", ".join(c.where() for _, c in sites))
    covered = set()
    out_sites = []
    for b, c, drv in eff:
        prov = Prov(b)
        org = prov.origins_op(c.args[0]) if c.args else set()
        vals = set()
        computed = []
        flag_ok = len(c.args) > 1 and _has_field(b, c.args[1], "stop_commanded")
        if drv is not None and org == {("param", 2)}:
            pb, A, cst = drv
            # the closure's argument is the element: the set is what the adaptor iterates over
            if A.matches(RUNS_ALL) and not A.local:
                pp = Prov(pb)
                for o in pp.origins_op(A.args[0]):
                    if o[0] == "const" and "int" in dict(o[1]):
                        vals.add(dict(o[1])["int"])
                    else:
                        computed.append(o[0])
            else:
                computed.append("closure driven by `%s`, which does not run it for every element" % A.name.split("::")[-1])
            # the flag: a capture of the closure, bound where the closure is created
            fo = prov.origins_op(c.args[1]) if len(c.args) > 1 else set()
            for o in fo:
                if o[0] == "upvar":
                    from ..interproc import upvar_index
                    i = upvar_index(b, o[1])
                    if i is not None and i < len(cst["rv"]["ops"]):
                        flag_ok = flag_ok or _has_field(pb, cst["rv"]["ops"][i], "stop_commanded")
            out_sites.append((pb, A))
        else:
            for o in org:
                if o[0] == "const" and "int" in dict(o[1]):
                    vals.add(dict(o[1])["int"])
                else:
                    computed.append(o[0])
            out_sites.append((b, c))
        key = "%s|%s" % (b.id, c.name)
        ctx.check(not computed, "C18-R1", "computed|" + key,
                  "signal operand of %s is built only from constants (found: %s)" % (c.name, sorted(vals) if not computed else "a computed value: " + ",".join(sorted(set(computed)))),
                  c.where())
        bad = sorted(v for v in vals if v not in VALID_SIGNALS)
        ctx.check(not bad, "C18-R1", "invalid|" + key, "every registered number is a single valid signal (%s)" % sorted(vals), c.where())
        ctx.check(flag_ok, "C18-R1", "flag|" + key, "the registered flag is the context's stop flag", c.where())
        if flag_ok and not computed:
            covered |= vals
    for sig, name in ((SIGINT, "SIGINT"), (SIGTERM, "SIGTERM")):
        ctx.check(sig in covered, "C18-R1", "missing|%s" % name,
                  "%s (%d) is registered to set the stop flag (registered set: %s)" % (name, sig, sorted(covered)),
                  ", ".join(c.where() for _, c in sites))
    return out_sites


def _short(name):
    return "::".join(re.sub(r"::<[^>]*>", "", name).split("::")[-2:])


WORK = r"finder::CodeFinder(::<[^>]*>)?::(new|find)$|generate::process_references$|^walkdir::WalkDir::new$"


def rule_order_global(ctx, facts, sites):
    """No discovery or pass can start before the handlers are registered, wherever the registration lives: from
    `main`, every call that (transitively) does the run's work must be dominated by a call that (transitively)
    registers; where one callee does both, the same is required inside it."""
    site_fns = {b.id for (b, _c) in sites}

    def unit_of(b):
        # closures / coroutines count with the function they are written in
        seen = 0
        while b is not None and b.kind not in ("Fn", "AssocFn") and b.parent and seen < 6:
            b = facts.body(b.parent)
            seen += 1
        return b

    def members_pos(f):
        """(unit, block of f at which the unit's calls take effect): f itself, and every closure / coroutine created
        in it (also those whose defining function was inlined into f), at the block that builds the closure value"""
        out, seen = [(f, None)], {f.id}
        todo = [(f, None)]
        while todo:
            u, pos = todo.pop()
            for bb in sorted(u.reachable_blocks()):
                for st in u.blocks[bb]["stmts"]:
                    if st["k"] == "assign" and st["rv"]["k"] == "agg" and st["rv"].get("def"):
                        cb = facts.body(st["rv"]["def"])
                        if cb is not None and cb.id not in seen and len(seen) < 40:
                            seen.add(cb.id)
                            p2 = pos if pos is not None else bb
                            out.append((cb, p2))
                            todo.append((cb, p2))
        return out

    def members(f):
        return [u for (u, _p) in members_pos(f)]

    memo_w, memo_r = {}, {}

    def local_callees(c):
        return [facts.body(n) for n in c.names() if facts.body(n) is not None and facts.body(n).kind in ("Fn", "AssocFn")]

    def may(f, memo, leaf, stack=()):
        if f.id in memo:
            return memo[f.id]
        if f.id in stack:
            return False
        memo[f.id] = False
        out = False
        for u in members(f):
            for c in u.calls:
                if leaf(u, c):
                    out = True
                elif any(may(g, memo, leaf, stack + (f.id,)) for g in local_callees(c) if g.id != f.id):
                    out = True
        memo[f.id] = out
        return out

    is_work = lambda u, c: bool(c.matches(WORK))
    is_reg = lambda u, c: bool(c.matches(REGISTER))

    main = facts.one(r"^main$")
    if not ctx.check(main is not None, "C18-R2", "anchor|main-order", "main found for the ordering walk", ""):
        return
    visited = set()
    n_checked = [0]

    def walk(f, depth=0):
        if f.id in visited or depth > 6:
            return
        visited.add(f.id)
        regs, works = [], []
        for (u, upos) in members_pos(f):
            for c in u.calls:
                bb = c.bb if upos is None else upos
                if c.matches(WORK):
                    works.append((bb, c, None))
                    continue
                gs = [g for g in local_callees(c) if g.id != f.id]
                r = is_reg(u, c) or any(may(g, memo_r, is_reg) for g in gs)
                w = any(may(g, memo_w, is_work) for g in gs)
                if r:
                    regs.append((bb, c, gs))
                if w:
                    works.append((bb, c, gs))
        dom = cfg.dominators(f)
        from ..common import loop_containing

        def reg_point(rb):
            # a registration written as a loop over the signals takes effect where the loop is left: its head
            # dominates everything after it (that the loop runs for every signal is C18-R1's business)
            lp = loop_containing(f, rb)
            if not lp:
                return rb, set()
            heads = [h for h in lp if any(p not in lp for p in preds.get(h, ()))]
            return (heads[0] if heads else rb), set(lp)

        preds = {}
        for a in f.reachable_blocks():
            for b2 in f.succ[a]:
                preds.setdefault(b2, []).append(a)
        for (wb, w, gs) in works:
            before = []
            for (rb, r, _g) in regs:
                if r.bb == w.bb and r.name == w.name:
                    continue
                pt, lp = reg_point(rb)
                if pt in dom.get(wb, ()) and wb not in lp and pt != wb:
                    before.append(r)
            n_checked[0] += 1
            if before:
                continue
            both = [g for g in (gs or []) if may(g, memo_r, is_reg)]
            if both:
                for g in both:
                    walk(g, depth + 1)
                continue
            ctx.bad("C18-R2", "order-global|%s|%s" % (f.id, _short(w.name)),
                    "`%s` can start before SIGINT / SIGTERM are registered: no registering call dominates it in %s (a signal arriving meanwhile kills the process instead of stopping it)" % (_short(w.name), f.id), w.where())
        # a callee that registers *and* works is also examined when it was counted as the registering call
        for (rb, r, gs) in regs:
            for g in (gs or []):
                if may(g, memo_w, is_work):
                    walk(g, depth + 1)

    walk(main)
    ctx.check(n_checked[0] >= 2, "C18-R2", "order-global-floor", "work calls examined for registration-before-work: %d (floor 2)" % n_checked[0], main.where())
    if not any(r["rule"] == "C18-R2" and not r["ok"] and "order-global|" in r.get("key", "") for r in ctx.results):
        ctx.ok("C18-R2", "every discovery / pass call reachable from main is dominated by the signal registration (functions walked: %s)" % sorted(visited), main.where())


def rule_registration_order(ctx, facts, sites):
    for b, c in sites:
        # (a) not inside a mode-specific region
        mode_regions = set()
        for (bb, tt, ft, place) in field_switches(b, ("check_mode", "check")):
            mode_regions |= dominated_region(b, tt) | dominated_region(b, ft)
        ctx.check(c.bb not in mode_regions, "C18-R2", "mode-specific|%s" % b.id,
                  "registration is not conditional on the mode", c.where())
        # (b) no driver call can run before the registration
        drivers = [d for d in b.calls if d.matches(DRIVERS)]
        early = [d for d in drivers if c.bb in cfg.reach_after(b, [d.bb])]
        ctx.check(not early, "C18-R2", "order|%s" % b.id,
                  "no driver call (%d in this function) can execute before the registration" % len(drivers), c.where())
        # (c) registration failure -> Err return (match / if let / is_err() / `?` on the call's result)
        prov = Prov(b)
        checked = False
        from .edit import examining_switches
        seen_sw = set()
        for (bb, arm, _ok_arm) in examining_switches(b, prov, c):
            if bb in seen_sw or arm is None:
                continue
            seen_sw.add(bb)
            checked = True
            region = cfg.reach_t(b, arm)
            rets = [(rb, st) for (rb, st) in return_values_r(b) if rb in region]
            good = (rets and all(is_err_agg(st) for _, st in rets)) or only_err_returns(b, arm)
            loops_back = c.bb in region
            ctx.check(bool(good) and not loops_back, "C18-R2", "regfail|%s" % b.id,
                      "a failed registration reaches only Err returns (%s)" % ", ".join(rv_str(st["rv"]) for _, st in rets), b.where(bb))
        ctx.check(checked, "C18-R2", "regfail-unchecked|%s" % b.id, "the result of the registration is examined", c.where())


def loop_of(body, bb):
    for comp in cfg.sccs(body):
        if bb in comp and (len(comp) > 1 or bb in body.succ[bb]):
            return comp
    return set()


def rule_polling(ctx, facts):
    pr = facts.one(r"generate::process_references::\{closure#0\}$")
    if not ctx.check(pr is not None, "C18-R3", "anchor|process_references", "the async block of process_references exists", ""):
        return
    prov = Prov(pr)
    loads = stop_flag_loads(pr, prov)
    file_loads = pr.calls_to(r"generate::load_code$")
    maps = pr.calls_to(r"ReferenceProcessor(<.*>)?>?::map")
    nexts = [c for c in pr.calls_to(r"Iterator>::next$|::next$")
             if any(o[0] == "upvar" and o[1] == "finder" for o in prov.origins_op(c.args[0]))]
    ctx.check(len(nexts) == 1 and len(file_loads) >= 1 and len(maps) >= 1, "C18-R3", "anchor|file-loop",
              "per-file loop found: %d iterator.next over finder.code_files, %d load_code, %d map" % (len(nexts), len(file_loads), len(maps)),
              pr.where())
    if len(nexts) != 1:
        return
    nx = nexts[0]
    loop = loop_of(pr, nx.bb)
    in_loop_loads = [c for c in loads if c.bb in loop]
    ctx.check(len(in_loop_loads) >= 1, "C18-R3", "poll-anchor", "the stop flag is loaded inside the per-file loop (%d loads)" % len(in_loop_loads), pr.where(nx.bb))
    # every path next() -> load_code passes a flag load
    for lc in file_loads:
        p = cfg.path(pr, nx.target, [lc.bb], avoid=[c.bb for c in loads])
        ctx.check(p is None, "C18-R3", "poll-before-load|%s" % lc.name,
                  "every path from the iterator's next() to load_code passes a load of the stop flag", lc.where(),
                  {"path_without_poll": p})
    # each load: true arm -> only None returns, never another file / map / reduce
    for c in loads:
        sw = None
        for bb in sorted(pr.reachable_blocks()):
            t = pr.term(bb)
            if t["k"] == "switch":
                kind, payload, neg = trace_bool(pr, t["discr"])
                if kind == "call" and payload.bb == c.bb:
                    tt, ft = bool_switch_targets(pr, bb)
                    if neg:
                        tt, ft = ft, tt
                    sw = (bb, tt)
        if not ctx.check(sw is not None, "C18-R3", "poll-unused|bb-rel", "the loaded stop flag decides a branch", c.where()):
            continue
        bb, tt = sw
        region = cfg.reach(pr, [tt])
        rets = [(rb, st) for (rb, st) in return_values(pr) if rb in region]
        work = [x for x in pr.calls if x.bb in region and x.matches(r"generate::load_code$|ReferenceProcessor(<.*>)?>?::(map|reduce)|::next$")]
        good = rets and all(is_none_agg(st) for _, st in rets) and not work
        where = "in-loop" if c.bb in loop else "after-loop"
        ctx.check(bool(good), "C18-R3", "stop-arm|%s" % where,
                  "a set stop flag (%s) leads only to `None` and to no further work (returns: %s; work: %s)" % (
                      where, ", ".join(rv_str(st["rv"]) for _, st in rets) or "none", ", ".join(w.name for w in work) or "none"),
                  pr.where(bb))
    # discovery walk
    fb = facts.one(r"finder::CodeFinder::<'ctx>::find$|finder::CodeFinder::find$")
    if ctx.check(fb is not None, "C18-R3", "anchor|finder", "CodeFinder::find exists", ""):
        fprov = Prov(fb)
        floads = stop_flag_loads(fb, fprov)
        cyc = cfg.cyclic_blocks(fb)
        inl = [c for c in floads if c.bb in cyc]
        ctx.check(len(inl) >= 1, "C18-R3", "finder-poll", "the discovery walk loads the stop flag inside its loop (%d)" % len(inl), fb.where())
        for c in inl:
            for bb in sorted(fb.reachable_blocks()):
                t = fb.term(bb)
                if t["k"] != "switch":
                    continue
                kind, payload, neg = trace_bool(fb, t["discr"])
                if kind == "call" and payload.bb == c.bb:
                    tt, ft = bool_switch_targets(fb, bb)
                    if neg:
                        tt, ft = ft, tt
                    region = cfg.reach(fb, [tt])
                    rets = [(rb, st) for (rb, st) in return_values(fb) if rb in region]
                    good = rets and all(op_const(st["rv"].get("op")) is not None and op_const(st["rv"]["op"]).get("int") == 0 for _, st in rets if st["rv"]["k"] == "use") and all(st["rv"]["k"] == "use" for _, st in rets)
                    ctx.check(bool(good), "C18-R3", "finder-stop-arm", "a stop seen during discovery makes find() return false", fb.where(bb))


def rule_interrupted_nonzero(ctx, facts):
    n = 0
    for b in facts.find(DRIVERS):
        for c in b.calls_to(r"generate::process_references$"):
            n += 1
            key = "%s|%s" % (b.id, re.sub(r".*process_references::<([^,>]+).*", r"\1", c.full))
            # decided on shapes first: with the pass's result = None, every feasible path to a return yields Err
            # (through `match`, `?`, ok_or / map_err ...; an opaque combinator such as map_or loses the shape)
            if not c.dst["p"] and c.target is not None and b.local_ty(c.dst["l"]).startswith("std::option::Option<"):
                rs = cfg.return_shapes(b, c.target, state={c.dst["l"]: (0, ())})
                if rs and all(sh is not None and sh[0] == 1 for _, sh in rs) and b.local_ty(0).startswith("std::result::Result<"):
                    ctx.check(True, "C18-R4", "combinator|" + key, "the Option from process_references is consumed only by shape-preserving steps", c.where())
                    ctx.check(True, "C18-R4", "none-arm|" + key, "`None` (stopped) from the pass reaches only Err returns (decided on value shapes: %d return state(s))" % len(rs), c.where())
                    ctx.check(True, "C18-R4", "unmatched|" + key, "the Option from process_references is examined", c.where())
                    continue
            carriers, calls, discr = consumers(b, c.dst["l"])
            other = [x for x in calls if x.bb != c.bb]
            ctx.check(not other, "C18-R4", "combinator|" + key,
                      "the Option from process_references is matched directly, not passed to %s" % (", ".join(x.name for x in other) or "a combinator"),
                      c.where())
            found = False
            for bb in discr:
                # the switch that uses this discriminant
                for sb in sorted(b.reachable_blocks()):
                    es = enum_switch(b, sb)
                    if not es or es[0]["l"] not in carriers:
                        continue
                    place, arms, otherwise = es
                    none_arm = arms.get(0, otherwise)
                    if 0 not in arms and 1 in arms:
                        none_arm = otherwise
                    found = True
                    region = cfg.reach_t(b, none_arm)   # variant-tracked: an Err built here and handed on through `?` stays Err
                    rets = [(rb, st) for (rb, st) in return_values_r(b) if rb in region]
                    good = (rets and all(is_err_agg(st) for _, st in rets)) or only_err_returns(b, none_arm)
                    ctx.check(bool(good), "C18-R4", "none-arm|" + key,
                              "`None` (stopped) from the pass reaches only Err returns (%s)" % (", ".join(rv_str(st["rv"]) for _, st in rets) or "no return"),
                              b.where(sb))
                break
            ctx.check(found, "C18-R4", "unmatched|" + key, "the Option from process_references is examined by a match", c.where())
    ctx.check(n >= 3, "C18-R4", "anchor|pass-calls", "process_references call sites in the drivers: %d (floor 3)" % n, "")
    # dispatcher: Err from a driver -> Err from main
    m = facts.one(r"^main$")
    if ctx.check(m is not None, "C18-R4", "anchor|main", "main exists", ""):
        prov = Prov(m)
        for d in m.calls_to(DRIVERS):
            ok = False
            # decided on shapes first: with the driver's result = Err, every feasible return of main is Err (through
            # `match`, `if let`, `?`, map / map_err ...)
            if not d.dst["p"] and d.target is not None and m.local_ty(d.dst["l"]).startswith(("std::result::Result<", "core::result::Result<")) \
                    and m.local_ty(0).startswith(("std::result::Result<", "core::result::Result<")):
                rs = cfg.return_shapes(m, d.target, state={d.dst["l"]: (1, ())})
                if rs and all(sh is not None and sh[0] == 1 for _, sh in rs):
                    ctx.check(True, "C18-R4", "dispatch|%s" % d.name, "Err from %s makes main return Err (non-zero exit; decided on value shapes: %d return state(s))" % (d.name.split("::")[-1], len(rs)), d.where())
                    continue
            for bb in sorted(m.reachable_blocks()):
                es = enum_switch(m, bb)
                if not es:
                    continue
                place, arms, otherwise = es
                org = prov.origins(place["l"]) if not place["p"] else set()
                if any(o[0] == "call" and o[1].bb == d.bb for o in org):
                    err_arm = arms.get(1, otherwise)
                    region = cfg.reach(m, [err_arm])
                    rets = [(rb, st) for (rb, st) in return_values(m) if rb in region]
                    ok = bool(rets) and all(is_err_agg(st) for _, st in rets)
                    ctx.check(ok, "C18-R4", "dispatch|%s" % d.name, "Err from %s makes main return Err (non-zero exit)" % d.name.split("::")[-1], m.where(bb))
            if not ok:
                ctx.check(False, "C18-R4", "dispatch-missing|%s" % d.name, "the result of %s decides main's result" % d.name, d.where())


def run(ctx):
    facts = ctx.bin
    sites = rule_signal_set(ctx, facts)
    rule_registration_order(ctx, facts, sites)
    rule_order_global(ctx, facts, [(b, c) for (b, c) in sites])
    rule_polling(ctx, facts)
    rule_interrupted_nonzero(ctx, facts)
    from .c07 import rule_no_self_termination
    rule_no_self_termination(ctx, facts, "C18-R6")
    try:
        from . import c07, c02
        c07.rule_complete_before_publish(ctx, facts, prefix="C18-R5/C07")
        c02.rule_lock_covers(ctx, facts, prefix="C18-R5/C02")
    except ImportError:
        ctx.note("C07/C02 rule modules not available; R5 not evaluated in this run")
    ctx.assume("signal_hook::flag::register(sig, flag) sets `flag` when `sig` is delivered (crate contract)")
    ctx.assume("signal delivery before the handlers are installed is outside the property (statement)")
    return {
        "explanation": "Path and constant rules on rustc MIR: the registered signal numbers are constant-evaluated at the "
                       "registration site(s) and must be the single signals 2 and 15; the per-file loop must poll the stop "
                       "flag before every file; an observed stop must lead to None, and None must lead to a non-zero exit "
                       "in both drivers; files-whole and lock-covers premises are re-checked from C07/C02.",
        "trusted": ["rustc MIR", "signal-hook contract", "sa/prov.py pass-through table"],
    }
