"""C13 — structured mode keeps the reference as a well-formed `ref` key-value.

R1 key search: every key-value is compared (==) with the key from get_name_for_ref_kvp_key()
   (= "ref"); key without value -> next pair; key with value -> pre-existing, reference =
   parse::<u32>(value text) (Err -> None), and the search stops.
R2 usable_reference_position = ¬(kind == StructuredPreExisting ∧ ¬exists).
R3 new key-value: prefix = key + " = ", suffix ", " when other key-values exist else "; ",
   kind StructuredNew.
R4 anchor: after the target argument when one is present (the span of the first pair that
   follows a Rule::target_arg pair), else right after the 1-byte `(`; grammar G10.
R5 the structured branch is taken iff `structured` ∧ ¬no-kvp directive; otherwise the
   message-literal branch (kind String).
plus every CodePosition is co-derived from ONE span (offset, line, column; same constant
shift on offset and column) — shared with C05/C10.
"""
import re
from .. import cfg
from ..common import (tuple_field_src as _tuple_field_src, call_chain, trace_bool, bool_switch_targets, enum_switch, return_values, single_def, loop_containing)
from ..facts import op_place, op_const, rv_str
from ..fmtdec import template_of_call
from ..prov import Prov
from . import gram, finder
from .c14 import pure_local
from ..grammar import flatten

FIND = finder.FIND


def _const_of(body, op, depth=0):
    """constant behind an operand, looking through plain copies (e.g. the binding of an inlined helper's
    parameter to the literal the caller passed)"""
    k = op_const(op)
    if k is not None or depth > 6:
        return k
    p = op_place(op)
    if p is None or p["p"]:
        return None
    d = single_def(body, p["l"])
    if d and d[1] == "assign" and d[2]["rv"]["k"] == "use":
        return _const_of(body, d[2]["rv"]["op"], depth + 1)
    return None


def _peel_add(body, op):
    """operand -> (inner operand, k) when it is `x + const k` (checked add), else (op, 0)"""
    p = op_place(op)
    if p is None:
        return op, 0
    cur = op
    for _ in range(6):
        p = op_place(cur)
        if p is None:
            return cur, 0
        if p["p"]:
            # (_273.0) of AddWithOverflow
            d = single_def(body, p["l"])
            if d and d[1] == "assign" and d[2]["rv"]["k"] == "bin" and d[2]["rv"]["op"] in ("AddWithOverflow", "Add"):
                rv = d[2]["rv"]
                k = _const_of(body, rv["b"])
                if k is not None and "int" in k:
                    return rv["a"], k["int"]
            return cur, 0
        d = single_def(body, p["l"])
        if d is None or d[1] != "assign":
            return cur, 0
        rv = d[2]["rv"]
        if rv["k"] == "use":
            cur = rv["op"]
            continue
        if rv["k"] == "bin" and rv["op"] in ("Add", "AddWithOverflow"):
            k = _const_of(body, rv["b"])
            if k is not None and "int" in k:
                return rv["a"], k["int"]
        return cur, 0
    return cur, 0


def _span_of(body, op, which):
    """which in {'offset','line','col'}: returns (span root local, description) or (None, why)"""
    calls, root = call_chain(body, op)
    names = [c.name.split("::")[-1] for c in calls]
    if which == "offset":
        if names[:1] == ["start"] and calls[0].matches(r"pest::Span::<.*>::start$"):
            return pure_local(body, calls[0].args[0]), "start"
        if names[:1] == ["end"] and calls[0].matches(r"pest::Span::<.*>::end$"):
            return pure_local(body, calls[0].args[0]), "end"
        return None, "offset is not Span::start()/end(): %s" % names[:3]
    # line / col: field k of line_col(start_pos(span))
    p = op_place(op)
    cur = op
    fld = None
    for _ in range(6):
        p = op_place(cur)
        if p is None:
            break
        fs = [e for e in p["p"] if isinstance(e, dict) and "f" in e]
        if fs:
            fld = fs[-1]["f"]
            d = single_def(body, p["l"])
            if d and d[1] == "call" and d[2].matches(r"pest::Position::<.*>::line_col$"):
                c2, r2 = call_chain(body, d[2].args[0])
                n2 = [c.name.split("::")[-1] for c in c2]
                if n2[:1] in (["start_pos"], ["end_pos"]):
                    want = 0 if which == "line" else 1
                    if fld != want:
                        return None, "takes line_col().%d for the %s" % (fld, which)
                    return pure_local(body, c2[0].args[0]), n2[0]
            return None, "not line_col() of a span position"
        d = single_def(body, p["l"])
        if d is None or d[1] != "assign" or d[2]["rv"]["k"] != "use":
            break
        cur = d[2]["rv"]["op"]
    return None, "not line_col() of a span position"


def code_positions(ctx, facts, prefix):
    """check every CodePosition::new site in the finder; returns list of dicts(site, span_local, shift, end)"""
    f = facts.one(FIND)
    if not ctx.check(f is not None, prefix, "anchor|find", "the Rust finder found", ""):
        return None, []
    sites = f.calls_to(r"code_parser::CodePosition::new$")
    ctx.check(len(sites) >= 3, prefix, "anchor|positions", "CodePosition::new sites in the finder: %d (floor 3)" % len(sites), f.where())
    out = []
    for i, c in enumerate(sorted(sites, key=lambda c: c.bb)):
        a, ka = _peel_add(f, c.args[0])
        l, kl = _peel_add(f, c.args[1])
        col, kc = _peel_add(f, c.args[2])
        sa_, wa = _span_of(f, a, "offset")
        sl, wl = _span_of(f, l, "line")
        sc, wc = _span_of(f, col, "col")
        nm = f.local_name(sa_) if sa_ is not None else None
        key = "%s" % (nm or "?")
        same = sa_ is not None and sa_ == sl == sc
        ctx.check(same, prefix, "one-span|%s" % key, "offset, line and column come from one span `%s` (%s / %s / %s)" % (nm, wa, wl, wc), c.where())
        pos_side = (wa == "start" and wl == "start_pos" and wc == "start_pos") or (wa == "end" and wl == "end_pos" and wc == "end_pos")
        ctx.check(pos_side, prefix, "same-end|%s" % key, "offset and line/column use the same end of the span", c.where())
        ctx.check(ka == kc and kl == 0 and ka in (0, 1), prefix, "same-shift|%s" % key,
                  "byte offset and column are shifted by the same constant (offset +%d, line +%d, column +%d)" % (ka, kl, kc), c.where())
        out.append({"call": c, "span": sa_, "name": nm, "shift": ka, "side": wa})
    return f, out


def rule_anchor_provenance(ctx, facts, g, prefix):
    f, pos = code_positions(ctx, facts, prefix)
    if f is None:
        return
    from .c14 import rule_compared
    from .gram import args_leading_literals
    lead = args_leading_literals(g) if "macro_args" in g.rules else None
    for p in pos:
        span = p["span"]
        d = single_def(f, span) if span is not None else None
        is_args = False
        if d and d[1] == "call" and d[2].matches(r"Pair::<.*>::as_span$"):
            pair = pure_local(f, d[2].args[0])
            is_args = rule_compared(f, pair) == {"macro_args"}
        if p["shift"] == 1:
            ctx.check(is_args, prefix, "shift-span", "the +1 anchor is relative to the macro_args span (whose first byte is `(`)", p["call"].where())
        if is_args and p["side"] == "start" and lead is not None:
            # the anchor just inside the bracket: shift = byte length of the literal tokens macro_args starts with
            n = sum(len(x.encode()) for x in lead)
            ctx.check(p["shift"] == n and lead in ([], ["("]), prefix, "shift-paren",
                      "the anchor at the start of the arguments is the macro_args span's start + %d, the length of the literal tokens %s that macro_args begins with (found +%d)" % (n, lead, p["shift"]),
                      p["call"].where())
    # message anchor: span of the literal's inner string_value
    msg = [p for p in pos if p["name"] and "span" in (p["name"] or "") and p["shift"] == 0]
    prod = g.produces("string_literal") if "string_literal" in g.rules else set()
    ctx.check(prod == {"string_value"}, prefix, "literal-inner", "the only pair inside string_literal is string_value (the text between the quotes): %s" % sorted(prod), "src/parser/rust_grammar.pest")
    ctx.check(g.ty("string_value") in ("atomic", "compound_atomic"), prefix, "literal-inner-atomic", "string_value is atomic (no skipping inside the message)", "src/parser/rust_grammar.pest")


def _switch_on_call(body, call):
    for bb in sorted(body.reachable_blocks()):
        t = body.term(bb)
        if t["k"] == "switch":
            k, pl, neg = trace_bool(body, t["discr"])
            if k == "call" and pl.bb == call.bb:
                tt, ft = bool_switch_targets(body, bb)
                if neg:
                    tt, ft = ft, tt
                return bb, tt, ft
    return None


def assigned_kinds(f):
    """{variant name: [bb]} for assignments of LogRefKind aggregates"""
    out = {}
    for bb in sorted(f.reachable_blocks()):
        for st in f.blocks[bb]["stmts"]:
            if st["k"] == "assign" and st["rv"]["k"] == "agg" and st["rv"].get("adt", "").endswith("LogRefKind"):
                out.setdefault(st["rv"]["variant"], []).append(bb)
    return out


def run(ctx):
    facts = ctx.bin
    g = ctx.grammar
    f = facts.one(FIND)
    if not ctx.check(f is not None, "C13-R1", "anchor|find", "the Rust finder found", ""):
        return {"explanation": "anchor missing"}
    prov = Prov(f)
    dom = cfg.dominators(f)
    kinds = assigned_kinds(f)
    finder.rule_statement_local_state(ctx, facts, "C13-R1")
    pw = finder.pair_walk(ctx, facts, "C13-R1")
    HB = [pw[1].bb] if pw else []
    # ---- key constant --------------------------------------------------------------------
    keyval = None
    kbodies = [b for b in facts.non_test_bodies() if re.search(r"get_name_for_ref_kvp_key(::|$)", b.id)]
    ki = None
    for kb in kbodies:
        for c in kb.calls:
            for a in c.args:
                k = op_const(a)
                if k and "str" in k:
                    keyval = k["str"] if keyval in (None, k["str"]) else "<several>"
                    ki = kb
        for bb in kb.reachable_blocks():
            for st in kb.blocks[bb]["stmts"]:
                if st["k"] == "assign" and st["rv"]["k"] == "use":
                    k = op_const(st["rv"]["op"])
                    if k and "str" in k:
                        keyval = k["str"] if keyval in (None, k["str"]) else "<several>"
                        ki = kb
    ctx.check(keyval == "ref", "C13-R1", "key-constant", "the reference key is `ref` (found %r)" % keyval, ki.where() if ki else "")
    getk = f.calls_to(r"::get_name_for_ref_kvp_key$")
    ctx.check(len(getk) == 1, "C13-R1", "key-source", "the finder obtains the key once from get_name_for_ref_kvp_key()", f.where())
    # ---- R1 key search -----------------------------------------------------------------
    eqs = []
    for c in f.calls:
        if c.matches(r"PartialEq.*::eq$|::eq$") and "&str" in c.func.get("full", ""):
            sides = [call_chain(f, a) for a in c.args[:2]]
            if any(any(x.matches(r"get_name_for_ref_kvp_key$") for x in s[0]) for s in sides):
                eqs.append((c, sides))
    if ctx.check(len(eqs) == 1, "C13-R1", "key-compare", "one equality test against the reference key (%d)" % len(eqs), f.where()):
        E, sides = eqs[0]
        other = [s for s in sides if not any(x.matches(r"get_name_for_ref_kvp_key$") for x in s[0])]
        n_other = [x.name.split("::")[-1] for x in other[0][0]] if other else []
        ctx.check(n_other[:1] == ["as_str"] and other[0][0][0].matches(r"pest::Span::<.*>::as_str$"), "C13-R1", "key-text",
                  "the compared text is the key span's text (chain %s)" % n_other[:3], E.where())
        loop = loop_containing(f, E.bb)
        nx = [c for c in f.calls_to(r"Iterator>::next$") if c.bb in loop and "IntoIter" in c.full or (c.bb in loop and "Iter<" in c.full)]
        nx = [c for c in nx if c.bb in dom.get(E.bb, ())]
        if ctx.check(len(nx) >= 1, "C13-R1", "kv-loop", "the key search is a loop over the collected key-values", E.where()):
            NX = sorted(nx, key=lambda c: -len(dom[c.bb]))[0]
            ch, root = call_chain(f, NX.args[0])
            names = [c.name.split("::")[-1] for c in ch]
            ctx.check(all(n in ("into_iter", "iter", "deref", "new") for n in names), "C13-R1", "kv-all", "every collected key-value is visited (chain %s)" % names, NX.where())
            sw = _switch_on_call(f, E)
            if ctx.check(sw is not None, "C13-R1", "key-branch", "the key comparison decides a branch", E.where()):
                bb, tt, ft = sw
                # not-equal -> next pair
                ctx.check(cfg.path(f, ft, [NX.bb], avoid=HB) is not None, "C13-R1", "other-key-continues", "a different key moves on to the next pair", f.where(bb))
                # equal: match on value Option
                vsw = None
                for sb in sorted(cfg.reach(f, [tt], avoid=[NX.bb])):
                    es = enum_switch(f, sb)
                    if es and (f.place_ty(es[0]) or "").startswith("std::option::Option<pest::Span"):
                        vsw = (sb, es)
                        break
                if ctx.check(vsw is not None, "C13-R1", "value-match", "a matching key is examined for a value", f.where(bb)):
                    sb, (place, arms, otherwise) = vsw
                    none_arm = arms.get(0, otherwise)
                    some_arm = arms.get(1, otherwise)
                    ctx.check(cfg.path(f, none_arm, [NX.bb], avoid=HB) is not None and not any(b in cfg.reach(f, [none_arm], avoid=[NX.bb]) for b in kinds.get("StructuredPreExisting", [])),
                              "C13-R1", "shorthand-ref-continues", "`ref` without a value (shorthand) is not taken as the reference; the search continues", f.where(sb))
                    region = cfg.reach(f, [some_arm], avoid=[NX.bb] + HB)
                    ctx.check(cfg.path(f, some_arm, [NX.bb], avoid=HB) is None, "C13-R1", "first-ref-wins",
                              "after `ref = <value>` was found the search stops (no second reference is looked for)", f.where(sb))
                    pre = [b for b in kinds.get("StructuredPreExisting", []) if b in region]
                    ctx.check(len(pre) == 1, "C13-R1", "kind-preexisting", "that statement is marked StructuredPreExisting", f.where(sb))
                    parses = [c for c in f.calls if c.bb in region and c.matches(r"::parse$") and "parse::<u32>" in c.full]
                    if ctx.check(len(parses) == 1, "C13-R1", "value-parse", "the value text is parsed with str::parse::<u32> (%d)" % len(parses), f.where(sb)):
                        pc = parses[0]
                        chn, rt = call_chain(f, pc.args[0])
                        nn = [x.name.split("::")[-1] for x in chn]
                        # the value span's text, with nothing but trailing layout removed: the grammar's kvp_value runs up to
                        # the next `,` / `;`, so `ref = 7 ;` has the value text "7 " (G9|tail-stops) and must still read as 7
                        core = [n for n in nn if n not in ("trim_end", "trim")]
                        ctx.check(core[:1] == ["as_str"] and not any(n in ("trim_start", "replace", "trim_matches", "trim_start_matches", "trim_end_matches", "split", "split_whitespace", "splitn", "rsplit", "next", "get", "index") for n in nn[: nn.index("as_str") + 1] if "as_str" in nn), "C13-R1", "value-text",
                                  "the parsed text is the value span's text, at most trimmed of trailing layout (chain %s)" % nn[:3], pc.where())
                        tail_has_layout = True
                        if "kvp_value" in g.rules:
                            parts_ = g.seq_of("kvp_value")
                            if len(parts_) == 2 and parts_[1]["k"] == "rep":
                                tl = flatten(parts_[1]["e"], "seq")
                                negs = [x for x in g.choices_of(tl[0]) if x["k"] == "neg"] if tl else []
                                stops = {a_["v"] for n_ in negs for a_ in g.choices_of(n_["e"]) if a_["k"] == "str"}
                                tail_has_layout = not ({" ", "\t", "\n"} <= stops)
                        ctx.check((not tail_has_layout) or any(n in ("trim_end", "trim") for n in nn), "C13-R1", "value-layout",
                                  "white space between the value and its `,` / `;` is part of the value span (the grammar's tail stops only at the separators), so it is trimmed before parsing (chain %s)" % nn[:3], pc.where())
                        # Err -> None, Ok(v) -> Some(v)
                        for b2 in sorted(region):
                            es = enum_switch(f, b2)
                            if es and not es[0]["p"]:
                                d = single_def(f, es[0]["l"])
                                if d and d[1] == "call" and d[2].bb == pc.bb:
                                    err_arm = es[1].get(1, es[2])
                                    r2 = cfg.reach(f, [err_arm], avoid=[NX.bb] + HB + _merge_after(f, es[1], es[2], HB))
                                    somes = [1 for b3 in r2 for st in f.blocks[b3]["stmts"] if st["k"] == "assign" and st["rv"]["k"] == "agg" and st["rv"].get("variant") == "Some" and st["rv"].get("adt", "").endswith("Option") and f.local_ty(st["dst"]["l"]) == "std::option::Option<u32>"]
                                    ctx.check(not somes, "C13-R1", "value-unusable-none", "a value that is not an unsigned integer literal yields reference = None (unusable)", f.where(b2))
    # ---- R2 usable_reference_position ------------------------------------------------------
    u = facts.one(r"LogRefEntry::usable_reference_position$")
    if ctx.check(u is not None, "C13-R2", "anchor|usable", "usable_reference_position found", ""):
        from .. import dte

        def kind_hook(c):
            full = c.func.get("full", "")
            if re.search(r"LogRefKind as std::cmp::PartialEq>::(eq|ne)$", full) and len(c.args) >= 2:
                var = None
                for a_ in c.args[:2]:
                    l = pure_local(u, a_)
                    d = single_def(u, l) if l is not None else None
                    if d and d[1] == "assign" and d[2]["rv"]["k"] == "agg":
                        var = d[2]["rv"]["variant"]
                return ("K:%s" % var, "bool", not full.endswith("::ne"))
            if c.matches(r"LogRefEntry::exists$"):
                return ("E", "bool", True)
            if c.matches(r"Option::<.*>::is_some$|Option::<.*>::is_none$") and c.args:
                from .c03 import _field_of
                if _field_of(u, c.args[0]) == "reference":
                    return ("E", "bool", c.matches(r"is_some$"))
            return None

        kind_adt = [a_ for p_, a_ in facts.adts.items() if p_.endswith("code_parser::LogRefKind")]
        kind_variants = [v_["name"] for v_ in kind_adt[0]["variants"]] if kind_adt else []

        def kind_place(body, place):
            names = [e.get("n") for e in place["p"] if isinstance(e, dict) and "f" in e]
            if names[-1:] == ["reference"]:
                return ("E", True)
            if names[-1:] == ["kind"]:
                return ("variants", "K:", kind_variants)
            return None

        rows = dte.extract(u, 0, set(), dte.Atoms([], kind_hook, kind_place), outcome_local=0)
        pred = dte.eval_predicate(rows)
        table = {}
        atoms_seen = set()
        for items, res in pred.items():
            asg = dict(items)
            atoms_seen |= set(asg)
            for kv in (True, False):
                for ev in (True, False):
                    if asg.get("K:StructuredPreExisting", kv) == kv and asg.get("E", ev) == ev:
                        table.setdefault((kv, ev), set()).add(res)
        extra = sorted(a_ for a_ in atoms_seen if a_ not in ("K:StructuredPreExisting", "E"))
        ctx.check(not extra, "C13-R2", "usable-shape", "usable depends only on `kind == StructuredPreExisting` and `exists` (other conditions: %s)" % (extra or "none"), u.where())
        want = {(True, True): True, (True, False): False, (False, True): True, (False, False): True}
        good = all(table.get(k) == {v} for k, v in want.items())
        ctx.check(good, "C13-R2", "usable-table", "usable_reference_position = ¬(kind == StructuredPreExisting ∧ ¬exists) (table: %s)" % {k: sorted(v, key=str) for k, v in table.items()}, u.where())
    # ---- R3 new key-value --------------------------------------------------------------------
    newb = kinds.get("StructuredNew", [])
    if ctx.check(len(newb) == 1, "C13-R3", "kind-new", "one place marks a statement StructuredNew (%d)" % len(newb), f.where()):
        nb = newb[0]
        # guarded by code_pos.is_none()
        isn = [c for c in f.calls_to(r"Option::<.*>::is_none$") if "CodePosition" in c.full]
        ok = False
        if len(isn) == 1:
            sw = _switch_on_call(f, isn[0])
            ok = sw is not None and sw[1] in dom.get(nb, ())
        ctx.check(ok, "C13-R3", "new-only-if-none", "a new key-value is prepared only when no `ref` key-value with a value was found", f.where(nb))
        region = dominated(f, dom, sw[1]) if ok else set()
        tm = [(c, template_of_call(c)) for c in f.calls_to(r"fmt::Arguments::<.*>::new") if c.bb in region]
        shape_ok = len(tm) == 1 and tm[0][1] == [("arg", {"default": True, "byte": 192}), ("lit", " = ")]
        ctx.check(shape_ok, "C13-R3", "prefix-template", "the inserted prefix is `{key} = ` (%s)" % [t for _, t in tm], tm[0][0].where() if tm else f.where(nb))
        disp = [c for c in f.calls_to(r"Argument::<.*>::new_display$") if c.bb in region]
        key_ok = len(disp) == 1 and any(x.matches(r"get_name_for_ref_kvp_key$") for x in call_chain(f, _tuple_field_src(f, disp[0].args[0]))[0])
        ctx.check(key_ok, "C13-R3", "prefix-key", "the key written is the one that is searched for (get_name_for_ref_kvp_key)", f.where(nb))
        # separators
        gts = []
        for bb in sorted(region):
            t = f.term(bb)
            if t["k"] == "switch":
                k, pl, neg = trace_bool(f, t["discr"])
                if k == "bin":
                    gts.append((bb, pl, neg))
        sep_ok = False
        detail = ""
        if len(gts) == 1:
            bb, st, neg = gts[0]
            rv = st["rv"]
            k0 = op_const(rv["b"])
            lenroot = call_chain(f, rv["a"])
            is_len = [x.name.split("::")[-1] for x in lenroot[0]][:1] == ["len"]
            tt, ft = bool_switch_targets(f, bb)
            if neg:
                tt, ft = ft, tt
            def strs(arm):
                out = set()
                for b2 in cfg.reach(f, [arm], avoid=[_join(f, tt, ft, HB)] + HB):
                    for st2 in f.blocks[b2]["stmts"]:
                        if st2["k"] == "assign" and st2["rv"]["k"] == "use":
                            c2 = op_const(st2["rv"]["op"])
                            if c2 and "str" in c2:
                                out.add(c2["str"])
                    t2 = f.blocks[b2]["term"]
                    if t2["k"] == "call" and not (t2.get("exp") or ""):
                        for a2 in t2["args"]:
                            c2 = op_const(a2)
                            if c2 and "str" in c2:
                                out.add(c2["str"])
                return out
            if rv["op"] == "Gt" and k0 is not None and k0.get("int") == 0 and is_len:
                many, none = strs(tt), strs(ft)
                sep_ok = many == {", "} and none == {"; "}
                detail = "len > 0 → %s, else %s" % (sorted(many), sorted(none))
            elif rv["op"] == "Eq" and k0 is not None and k0.get("int") == 0 and is_len:
                many, none = strs(ft), strs(tt)
                sep_ok = many == {", "} and none == {"; "}
                detail = "len == 0 → %s, else %s" % (sorted(none), sorted(many))
        ctx.check(sep_ok, "C13-R3", "separators", "terminator is `; ` when it is the only key-value and `, ` otherwise (%s)" % detail, f.where(nb))
        # what is counted: one element per key of the statement's key-value list (with or without a value) —
        # a shorthand capture `user;` is a key-value too, and `ref = N; user;` would close the list early
        if len(gts) == 1 and is_len:
            vroot = lenroot[1]
            V = None
            if lenroot[0] and lenroot[0][0].args:
                V = pure_local(f, lenroot[0][0].args[0])
            pr_ = Prov(f)
            pushes = [c for c in f.calls if c.matches(r"Vec::<.*>::push$") and V is not None and c.args and op_place(c.args[0]) is not None
                      and (V in pr_.bases(op_place(c.args[0])["l"]) or any(_same_value(f, V, b_) for b_ in pr_.bases(op_place(c.args[0])["l"])))]
            key_arm = None
            key_loop = None
            for (hb, arms_, other_, asr_) in finder.handled_rules(f, facts):
                if "kvp_key" in arms_:
                    key_arm = arms_["kvp_key"]
                    lp = loop_containing(f, hb)
                    nxs = [c for c in f.calls_to(r"Iterator>::next$") if c.bb in lp and c.bb in dom.get(hb, ())]
                    key_loop = sorted(nxs, key=lambda c: -len(dom[c.bb]))[0] if nxs else None
            okc = key_arm is not None and key_loop is not None and bool(pushes)
            if okc:
                okc = cfg.path(f, key_arm, [key_loop.bb], avoid=[c.bb for c in pushes]) is None and all(key_arm in dom.get(c.bb, ()) for c in pushes)
            ctx.check(okc, "C13-R3", "kv-count-complete",
                      "the list whose length picks the terminator gets exactly one element for every key of the statement (pushed in the kvp_key arm on every path, nowhere else): %d push site(s)" % len(pushes),
                      f.where(nb))
            # ... and the scan over the list's children runs to its end: from every arm of the key / value match — also
            # the arm for children that are neither (a capture-modifier word) — the next iterator step reached is the
            # scan's own `next()` (a `break` there falls out of the scan and hides every later key, `ref` among them)
            for (hb3, arms3, other3, _asr3) in finder.handled_rules(f, facts):
                if "kvp_key" not in arms3 or key_loop is None:
                    continue
                all_next = {c.bb for c in f.calls_to(r"Iterator>::next$")}
                bad_arms = []
                for nm, arm in sorted(list(arms3.items()) + [("other children", other3)], key=lambda x: str(x[0])):
                    if arm is None:
                        continue
                    seen3, todo3, first = set(), [arm], set()
                    while todo3:
                        b3 = todo3.pop()
                        if b3 in seen3:
                            continue
                        seen3.add(b3)
                        if b3 in all_next:
                            first.add(b3)
                            continue
                        t3 = f.term(b3)
                        for tg in f.succ[b3]:
                            if tg != t3.get("unwind"):
                                todo3.append(tg)
                    if first - {key_loop.bb}:
                        bad_arms.append("%s → next() at %s" % (nm, ", ".join(f.where(x) for x in sorted(first - {key_loop.bb}))))
                ctx.check(not bad_arms, "C13-R3", "kv-scan-complete",
                          "after every child of the key-value list the scan goes on with the next child (arms that leave the scan: %s)" % (bad_arms or "none"),
                          key_loop.where())
        # total = number of collected key-values (same vec that is searched)
    # ---- R4 anchor ------------------------------------------------------------------------
    rule_anchor_provenance(ctx, facts, g, "C13-R4")
    gram.g10_target_visible(ctx, g, "C13-R4")
    hr = finder.handled_rules(f, facts)
    inner = [h for h in hr if "kvp_args" in h[1] or "string_literal" in h[1]]
    if ctx.check(len(inner) == 1, "C13-R4", "anchor|inner-match", "the match over macro_args' pairs found", f.where()):
        bb, arms, otherwise, asr = inner[0]
        prod = g.produces("macro_args") if "macro_args" in g.rules else set()
        TR = gram.target_rule(g) or "target_arg"
        ctx.check(prod <= set(arms) and TR in arms, "C13-R4", "inner-handles",
                  "every pair the grammar can put under macro_args is handled, including target_arg (grammar: %s; handled: %s)" % (sorted(prod), sorted(arms)), f.where(bb))
        if TR in arms:
            region = cfg.reach(f, [arms[TR]], avoid=[bb])
            flag_sets = []
            for b2 in region:
                for st in f.blocks[b2]["stmts"]:
                    if st["k"] == "assign" and st["rv"]["k"] == "use" and (op_const(st["rv"]["op"]) or {}).get("int") == 1 and f.local_ty(st["dst"]["l"]) == "bool" and arms[TR] in dom.get(b2, ()):
                        flag_sets.append(st["dst"]["l"])
            ctx.check(len(flag_sets) == 1, "C13-R4", "target-flag", "seeing a target pair records that a target is present", f.where(arms[TR]))
            if len(flag_sets) == 1:
                flag = flag_sets[0]
                # the post-target span: Option<Span> local assigned Some(as_span(current pair)) under `flag && is_none`
                cand = None
                cand_calls = []
                cand_store_blocks = []
                for b2 in sorted(f.reachable_blocks()):
                    for st in f.blocks[b2]["stmts"]:
                        if st["k"] == "assign" and not st["dst"]["p"] and st["rv"]["k"] == "use" and f.local_ty(st["dst"]["l"]).startswith("std::option::Option<pest::Span"):
                            src = single_def(f, op_place(st["rv"]["op"])["l"]) if op_place(st["rv"]["op"]) else None
                            if src and src[1] == "assign" and src[2]["rv"]["k"] == "agg" and src[2]["rv"].get("variant") == "Some":
                                ch, rt = call_chain(f, src[2]["rv"]["ops"][0])
                                if ch and ch[0].matches(r"Pair::<.*>::as_span$") and pure_local(f, ch[0].args[0]) == pure_local(f, asr.args[0]):
                                    # guarded by the flag?
                                    guarded = False
                                    for sb in dom.get(b2, ()):
                                        t = f.term(sb)
                                        if t["k"] == "switch":
                                            k, pl, neg = trace_bool(f, t["discr"])
                                            if k == "other" or k == "place":
                                                pass
                                            pp = op_place(t["discr"])
                                            if pp and not pp["p"]:
                                                dd = single_def(f, pp["l"])
                                                if dd and dd[1] == "assign" and dd[2]["rv"]["k"] == "use" and op_place(dd[2]["rv"]["op"]) and op_place(dd[2]["rv"]["op"])["l"] == flag:
                                                    guarded = True
                                    if guarded:
                                        cand = st["dst"]["l"]
                                        cand_calls.append(ch[0].bb)
                                        cand_store_blocks.append(b2)
                ctx.check(cand is not None, "C13-R4", "post-target-span", "the span of the first pair after the target argument is recorded", f.where())
                # ... of the *first* pair only: the store is also guarded by "nothing recorded yet" (otherwise every later
                # argument overwrites it and the anchor ends up at the message literal)
                if cand is not None:
                    first_only = True
                    for b2 in cand_store_blocks:
                        ok1 = False
                        for sb in dom.get(b2, ()):
                            t = f.term(sb)
                            if t["k"] != "switch":
                                continue
                            k, pl, neg = trace_bool(f, t["discr"])
                            if k == "call" and pl.matches(r"Option::<.*>::is_none$|Option::<.*>::is_some$") and pl.args and pure_local(f, pl.args[0]) == cand:
                                tt, ft = bool_switch_targets(f, sb)
                                if neg:
                                    tt, ft = ft, tt
                                arm = tt if pl.matches(r"is_none$") else ft
                                if arm in dom.get(b2, ()) or arm == b2:
                                    ok1 = True
                            es = enum_switch(f, sb)
                            if es is not None and not es[0]["p"] and es[0]["l"] == cand:
                                arm0 = es[1].get(0, es[2])
                                if arm0 in dom.get(b2, ()) or arm0 == b2:
                                    ok1 = True
                        first_only = first_only and ok1
                    ctx.check(first_only, "C13-R4", "post-target-first-only", "that span is recorded once per statement (guarded by `is_none()` of itself): it is the pair that directly follows the target", f.where(cand_store_blocks[0]) if cand_store_blocks else f.where())
                # the StructuredNew anchor uses it when present
                _, pos = code_positions(_Quiet(), facts, "C13-R4")
                used = [p for p in pos if p["span"] is not None and (_root_is_payload_of(f, p["span"], cand) or _value_from_calls(f, p["span"], cand_calls))]
                ctx.check(bool(used) and all(p["shift"] == 0 and p["side"] == "start" for p in used), "C13-R4", "anchor-after-target",
                          "with a target present the new key-value is anchored at the start of the pair that follows it", used[0]["call"].where() if used else f.where())
                shifted = [p for p in pos if p["shift"] == 1]
                if used and shifted:
                    # the `(`+1 anchor is only used when no post-target span exists
                    for p in shifted:
                        es_ok = False
                        for sb in dom.get(p["call"].bb, ()):
                            es = enum_switch(f, sb)
                            if es and not es[0]["p"] and (es[0]["l"] == cand or _same_value(f, es[0]["l"], cand)):
                                none_arm = es[1].get(0, es[2])
                                es_ok = none_arm in dom.get(p["call"].bb, ())
                        ctx.check(es_ok, "C13-R4", "paren-anchor-only-without-target", "the `(`+1 anchor is used only when there is no target argument", p["call"].where())
    # ---- R5 branch selection ------------------------------------------------------------------
    strk = kinds.get("String", [])
    ctx.check(len(strk) == 1, "C13-R5", "kind-string", "one place marks a statement as message-literal style (%d)" % len(strk), f.where())
    ssw = None
    for bb in sorted(f.reachable_blocks()):
        t = f.term(bb)
        if t["k"] == "switch":
            k, pl, neg = trace_bool(f, t["discr"])
            if k == "place" and any(isinstance(e, dict) and e.get("n") == "structured" for e in pl["p"]):
                tt, ft = bool_switch_targets(f, bb)
                if neg:
                    tt, ft = ft, tt
                ssw = (bb, tt, ft)
    if ctx.check(ssw is not None and strk, "C13-R5", "structured-branch", "a branch on config.rust.structured exists", f.where()):
        bb, tt, ft = ssw
        nk = f.calls_to(r"check_for_no_kvp_directive$")
        sb = strk[0]
        ok1 = sb in cfg.reach(f, [ft], avoid=[bb]) and not any(b in cfg.reach(f, [ft], avoid=[bb, _after(f, sb)]) for b in kinds.get("StructuredNew", []) + kinds.get("StructuredPreExisting", []))
        ctx.check(ok1, "C13-R5", "unstructured-is-string", "structured = false leads to the message-literal branch only", f.where(bb))
        if nk:
            nsw = _switch_on_call(f, nk[0])
            if nsw:
                ok2 = sb in cfg.reach(f, [nsw[1]], avoid=[bb]) and all(b in cfg.reach(f, [nsw[2]], avoid=[bb]) for b in kinds.get("StructuredNew", []))
                ctx.check(ok2, "C13-R5", "nokvp-is-string", "a no-kvp directive leads to the message-literal branch; otherwise the key-value branch", f.where(nsw[0]))
    # an unusable `ref` is never edited: the insert routine's selection tables (shared with C05-R1)
    from .c03 import c05_run_r1_insert, _Only
    c05_run_r1_insert(_Only(ctx, "C13-R2", ("table|insert", "extra-condition|insert", "anchor|filters", "loop-filtered")), facts)
    gram.g9_kvp_value(ctx, g, "C13-G")
    gram.g15_kvp_args(ctx, g, "C13-G")
    gram.g6_modifiers(ctx, g, "C13-G")
    gram.g14_order(ctx, g, "C13-G")
    gram.g16_strings_atomic(ctx, g, "C13-G")
    gram.g17_string_escapes(ctx, g, "C13-G")
    ctx.assume("the log crate's kv grammar: `target: expr,` first, then `k = v` pairs separated by `,` and terminated by `;`, then the format string")
    return {
        "explanation": "Decision tables of the structured branch extracted from rustc MIR of the finder (key comparison, value "
                       "match, parse::<u32>, break-after-first, kind assignments, separator selection on len()>0, prefix "
                       "template), co-derivation of every CodePosition from one span, the target-aware anchor (flag set in the "
                       "Rule::target_arg arm, span of the following pair), plus grammar attributes G6/G9/G10/G14/G15.",
        "trusted": ["rustc MIR", "pest_meta AST", "log crate macro grammar (statement)"],
    }


def dominated(f, dom, head):
    return {b for b in dom if head in dom[b]}


def _merge_after(f, arms, otherwise, avoid):
    ts = sorted(set(list(arms.values()) + [otherwise]))
    ts = [t for t in ts if f.term(t)["k"] != "unreachable"]
    if len(ts) >= 2:
        j = _join(f, ts[0], ts[1], avoid)
        return [j] if j >= 0 else []
    return []


def _join(f, a, b, avoid=()):
    """first block reachable from both arms (post-dominator approximation)"""
    ra = cfg.reach(f, [a], avoid=avoid)
    q = [b]
    seen = {b}
    while q:
        x = q.pop(0)
        if x in ra:
            return x
        for s in f.succ[x]:
            if s not in seen and s not in avoid:
                seen.add(s)
                q.append(s)
    return -1


def _after(f, bb):
    return bb


def _same_value(f, l1, l2):
    """l1 holds (a copy of) the value built in l2: every statement that can produce l1's value also produces l2's"""
    from ..common import value_sites
    a = {id(d) if isinstance(d, dict) else ("call", d.bb) for (_b, d) in value_sites(f, {"copy": {"l": l1, "p": []}})}
    b = {id(d) if isinstance(d, dict) else ("call", d.bb) for (_b, d) in value_sites(f, {"copy": {"l": l2, "p": []}})}
    return bool(a) and a <= b


def _value_from_calls(f, span_local, call_bbs):
    """every statement that can produce the value of span_local is one of the given calls (looking through
    Option / tuple aggregates, copies and helper returns)"""
    from ..common import value_sites
    if not call_bbs:
        return False
    leaves = value_sites(f, {"copy": {"l": span_local, "p": []}})
    return bool(leaves) and all((not isinstance(d, dict)) and d.bb in call_bbs for (_bb, d) in leaves)


def _root_is_payload_of(f, span_local, opt_local):
    """span_local = (opt_local as Some).0 ?"""
    if opt_local is None:
        return False
    for (bb, kind, d) in f.defs.get(span_local, []):
        if kind == "assign" and d["rv"]["k"] == "use":
            p = op_place(d["rv"]["op"])
            if p and p["l"] == opt_local and any(isinstance(e, dict) and "downcast" in e for e in p["p"]):
                return True
    return False


class _Quiet:
    def ok(self, *a, **k):
        pass

    def bad(self, *a, **k):
        pass

    def check(self, cond, *a, **k):
        return cond

    def assume(self, *a):
        pass

    def note(self, *a):
        pass
