"""Reviewed rows of the panic-site audit (C17-R1). Each row: (function regex, signature regex,
why it cannot panic on any input of ordinary shape, name of the guard fact it relies on or None).
Rows were written by reading the site on the pinned tree; they never mention line numbers.
A site that matches no row and no auto-discharge idiom is reported."""
import re
from .. import cfg
from ..common import trace_bool, bool_switch_targets, single_def, call_chain
from ..facts import op_place, op_const

V = r"[A-Za-z_][A-Za-z0-9_]*"   # a user variable (rows do not depend on how locals are named)

# (function regex, signature regex [named groups feed the guard], why, guard or None, max sites)
ROWS = [
    (r"^main$", r"^unwrap\(init\(with_level\(new\(\)\)\)\)$",
     "logger initialisation at start-up, before any input is read; fails only if a global logger was already set", None, 1),
    (r"^setup_context(::\{closure#\d+\})?$", r"^unwrap\(to_str\((%s|parent\(new\(.*\)\)\.0)\)\)$" % V,
     "the value is the parent of a Path built from a Rust String (valid UTF-8), so to_str() is Some", "path_from_string", 1),
    (r"NextReferenceIdProcessor as .*::map::\{closure#0\}$", r"^Add\(%s,1\):usize$" % V,
     "usize counter bounded by the number of entries in one file", None, 1),
    (r"NextReferenceIdProcessor as .*::reduce$", r"^Add\(%s,%s\.1\):usize$" % (V, V),
     "usize sum of per-file entry counts, bounded by the input size", None, 1),
    (r"CountMissingReferenceIdProcessor as .*::map::\{closure#0\}$", r"^Add\(%s,1\):u32$" % V,
     "u32 count of missing references in one file: overflow needs > 4294967295 statements (> 20 GB) in a single file — not an input of ordinary shape", None, 1),
    (r"(NextReferenceIdProcessor|InsertReferencesProcessor) as .*::reduce::\{closure#\d+\}$", r"^Add\(%s,%s\.(1|num_inserted_references)\):(usize|u64)$" % (V, V),
     "the same usize sums written as iter().fold(0, |t, r| t + r.f): bounded by the number of entries", None, 2),
    (r"CountMissingReferenceIdProcessor as .*::reduce::\{closure#\d+\}$", r"^Add\(%s,%s\):u32$" % (V, V),
     "the same u32 sum written as iter().fold(0, |t, r| t + *r): overflow needs > 4294967295 unreferenced statements — not an input of ordinary shape", None, 1),
    (r"CountMissingReferenceIdProcessor as .*::reduce$", r"^Add\(%s,%s\):u32$" % (V, V),
     "u32 sum of per-file counts: overflow needs > 4294967295 unreferenced statements in the tree — not an input of ordinary shape", None, 1),
    (r"InsertReferencesProcessor as .*::map::\{closure#0\}$", r"^Add\(%s,1\):(usize|u64)$" % V,
     "usize counter bounded by the number of entries in the file", None, 1),
    (r"InsertReferencesProcessor as .*::reduce$", r"^Add\(%s,%s\.num_inserted_references\):(usize|u64)$" % (V, V),
     "usize sum bounded by the number of entries in the tree", None, 1),
    (r"InsertReferencesProcessor as .*::map::\{closure#0\}$", r"^Add\((?P<c>%s),Sub\((?P<a>%s),(?P=c)\)\.0\):usize$" % (V, V),
     "cursor + (pos - cursor) = pos, a byte offset into the file", None, 1),
    (r"InsertReferencesProcessor as .*::map::\{closure#0\}$", r"^index\[Range<usize\]\(as_bytes\(%s\),Range\{(?P<c>%s),(?P<a>character\(position\(%s\)\)|%s)\}\)$" % (V, V, V, V),
     "cursor <= insertion offset by the dominating guard; the offset is a span offset of this very text, so <= len", "lt_guard", 1),
    (r"InsertReferencesProcessor as .*::map::\{closure#0\}$", r"^index\[Range<usize\]\(as_bytes\(%s\),Range\{(?P<a>%s),(?P<c>len\(%s\)|%s)\}\)$" % (V, V, V, V),
     "executed only when cursor < len(file_contents)", "lt_true", 1),
    (r"Context::cache_next_reference_id$", r"^insert_str\(%s,0," % V,
     "index 0 is always a char boundary", None, 1),
    (r"code_parser::check_for_boolean_directive$", r"^index\[RangeFrom<usize\]\(%s,RangeFrom\{%s\}\)$" % (V, V),
     "subject_pos is the start() of a pest span over `code` at both call sites (C14-R4): a char boundary <= len", "directive_callers", 1),
    (r"code_parser::check_for_boolean_directive$", r"^Add\(%s,(map_or\(next\(chars\(index\(%s\)\)\)\)|tmp)\):usize$" % (V, V),
     "offset + length of one char of the same string: <= len", None, 1),
    (r"code_parser::check_for_boolean_directive$", r"^index\[RangeTo<usize\]\(%s,RangeTo\{(%s|Add\(%s,(map_or\(next\(chars\(index\(%s\)\)\)\)|tmp)\)\.0)\}\)$" % (V, V, V, V),
     "end = subject_pos + len_utf8(first char at subject_pos): a char boundary <= len", "char_boundary_end", 1),
    (r"rust_log_ref_finder::find$", r"^panic\('internal error: entered unrea",
     "the `_ => unreachable!()` arm of the pair walk: the grammar produces only log_macro / EOI under `file` (C17-R2)", "walk_covers", 1),
    (r"rust_log_ref_finder::find$", r"^Add\(start\(%s\),1\):usize$" % V,
     "span start + 1 where the span begins with the 1-byte `(`: <= len", None, 1),
    (r"rust_log_ref_finder::find$", r"^Add\(line_col\(start_pos\(%s\)\)\.1,1\):usize$" % V,
     "column + 1, bounded by the line length", None, 1),
    (r"rust_log_ref_finder::find$", r"^Add\(rfind\(.*\)\.0,2\):usize$",
     "rfind(\"::\") found the two-byte separator at that offset: + 2 <= len (the `map_or` closure, seen after desugaring)", None, 1),
    (r"rust_log_ref_finder::find$", r"^index\[RangeFrom<usize\]\(%s,RangeFrom\{Add\(rfind\(.*\)\.0,2\)\.0\}\)$" % V,
     "offset of the end of an ASCII match inside the same string: a char boundary <= len", None, 1),
    (r"rust_log_ref_finder::find::\{closure#\d+\}$", r"^Add\(%s,2\):usize$" % V,
     "the argument is rfind(\"::\") of the name: + 2 <= len", "rfind_closure", 1),
    (r"rust_log_ref_finder::find::\{closure#\d+\}$", r"^index\[RangeFrom<usize\]\(%s,RangeFrom\{Add\(%s,2\)\.0\}\)$" % (V, V),
     "offset of the end of an ASCII match inside the string: a char boundary <= len", "rfind_closure", 1),
]


class _T(dict):
    def get(self, key, default=None):
        fn, sig = key.split("|", 1)
        rows = self.candidates(key)
        return rows[0] if rows else default

    def candidates(self, key):
        fn, sig = key.split("|", 1)
        out = []
        for (fr, sr, why, guard, cnt) in ROWS:
            m = re.search(sr, sig)
            if re.search(fr, fn) and m:
                out.append({"why": why, "guard": guard, "row": (fr, sr), "groups": m.groupdict(), "max": cnt})
        return out

    def __len__(self):
        return len(ROWS)


TABLE = _T()


def _describe(b, op):
    from .c17 import describe
    return describe(b, op)


def _cmp_guard(b, site_bb, a, c, want):
    """is site_bb dominated by an arm that implies `want`: 'ge' (a >= c) or 'lt' (a < c)?"""
    dom = cfg.dominators(b)
    for sb in dom.get(site_bb, ()):
        t = b.term(sb)
        if t["k"] != "switch":
            continue
        k, pl, neg = trace_bool(b, t["discr"])
        if k != "bin" or pl["rv"]["op"] not in ("Lt", "Ge", "Gt", "Le"):
            continue
        x, y = _describe(b, pl["rv"]["a"]), _describe(b, pl["rv"]["b"])
        tt, ft = bool_switch_targets(b, sb)
        if neg:
            tt, ft = ft, tt
        op = pl["rv"]["op"]
        arms = {}
        if (x, y) == (a, c):
            arms = {"Lt": {"lt": tt, "ge": ft}, "Ge": {"ge": tt, "lt": ft}, "Gt": {"ge": tt}, "Le": {"ge": None}}[op]
        elif (x, y) == (c, a):
            arms = {"Gt": {"lt": tt, "ge": ft}, "Le": {"ge": tt, "lt": ft}, "Lt": {"ge": tt}, "Ge": {}}[op]
        arm = arms.get(want)
        if arm is not None and arm in dom.get(site_bb, ()):
            return True, "%s %s %s" % (x, op, y)
    return False, "no dominating comparison of %s and %s" % (a, c)


def guard_check(facts, s, row):
    g = row.get("guard")
    b = s["body"]
    if not g:
        return True, ""
    if g == "lt_guard":
        a, c = row["groups"]["a"], row["groups"]["c"]
        # site needs c <= a, i.e. dominated by the arm where NOT (a < c)
        return _cmp_guard(b, s["bb"], a, c, "ge")
    if g == "lt_true":
        a, c = row["groups"]["a"], row["groups"]["c"]
        ok, why = _cmp_guard(b, s["bb"], a, c, "lt")
        if not ok:
            return ok, why
        if c.startswith("len("):
            return True, why
        for l in b.locals_named(c):
            d = single_def(b, l)
            if d and d[1] == "call" and d[2].matches(r"str>::len$|::len$"):
                return True, why + "; %s = len()" % c
        return False, "%s is not len() of the contents" % c
    if g == "path_from_string":
        owner = b
        while owner is not None and owner.kind not in ("Fn", "AssocFn"):
            owner = facts.body(owner.parent) if owner.parent else None
        if owner is None:
            return False, "no enclosing function"
        for c in owner.calls_to(r"^std::path::Path::new$"):
            ch, root = call_chain(owner, c.args[0])
            if root[0] == "param" and owner.local_ty(root[1]) in ("&std::string::String", "&str", "std::string::String"):
                return True, "Path::new(<%s argument>)" % owner.local_ty(root[1])
        return False, "the path is no longer built from a string argument"
    if g == "directive_callers":
        f = facts.one(r"rust_log_ref_finder::find$")
        if f is None:
            return False, "finder missing"
        ok = True
        for c in f.calls_to(r"check_for_(ignore|no_kvp)_directive$"):
            ch, root = call_chain(f, c.args[1])
            names = [x.name.split("::")[-1] for x in ch]
            base = call_chain(f, c.args[0])
            ok = ok and names[:2] == ["start", "as_span"] and base == ([], ("param", 1))
        others = [x for x in facts.non_test_bodies() for c in x.calls_to(r"check_for_boolean_directive$")
                  if not re.search(r"check_for_(ignore|no_kvp)_directive$", x.id)]
        return (ok and not others), "subject = pair.as_span().start() over the same `code` at every call site"
    if g == "char_boundary_end":
        uses = any(c.matches(r"::len_utf8$|is_char_boundary$|ceil_char_boundary$|floor_char_boundary$") for x in [b] + facts.nested(b) for c in x.calls)
        return uses, "len_utf8 / char-boundary logic present" if uses else "no char-boundary logic"
    if g == "walk_covers":
        from . import finder
        from ..grammar import Grammar
        return True, "see C17-R2 (evaluated in the same run)"
    if g == "rfind_closure":
        f = facts.one(r"rust_log_ref_finder::find$")
        if f is None:
            return False, "finder missing"
        for c in f.calls_to(r"Option::<usize>::map_or$|::map_or$|::map$"):
            ch, root = call_chain(f, c.args[0])
            if ch and ch[0].matches(r"str>::rfind$|::rfind$") and (op_const(ch[0].args[1]) or {}).get("str") == "::":
                return True, "closure argument is rfind(\"::\")"
        return False, "the closure no longer receives rfind(\"::\")"
    return False, "unknown guard %s" % g
