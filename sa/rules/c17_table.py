"""Reviewed rows of the panic-site audit (C17-R1). Each row: (function regex, signature regex,
why it cannot panic on any input of ordinary shape, name of the guard fact it relies on or None).
Rows were written by reading the site on the pinned tree; they never mention line numbers.
A site that matches no row and no auto-discharge idiom is reported."""
import re
from .. import cfg
from ..common import trace_bool, bool_switch_targets, single_def, call_chain
from ..facts import op_place, op_const

ROWS = [
    (r"^main$", r"^unwrap\(init\(with_level\(new\(\)\)\)\)$",
     "logger initialisation at start-up, before any input is read; fails only if a global logger was already set", None),
    (r"^setup_context$", r"^unwrap\(to_str\(p\)\)$",
     "`p` is the parent of a Path built from a Rust String (valid UTF-8), so to_str() is Some", "path_from_string"),
    (r"NextReferenceIdProcessor as .*::map::\{closure#0\}$", r"^Add\(num_missing_refs,1\):usize$",
     "usize counter bounded by the number of entries in one file", None),
    (r"NextReferenceIdProcessor as .*::reduce$", r"^Add\(missing_refs_result,map_result\.1\):usize$",
     "usize sum of per-file entry counts, bounded by the input size", None),
    (r"CountMissingReferenceIdProcessor as .*::map::\{closure#0\}$", r"^Add\(missing_ref_count,1\):u32$",
     "u32 count of missing references in one file: overflow needs > 4294967295 statements (> 20 GB) in a single file — not an input of ordinary shape", None),
    (r"CountMissingReferenceIdProcessor as .*::reduce$", r"^Add\(reduce_result,map_result\):u32$",
     "u32 sum of per-file counts: overflow needs > 4294967295 unreferenced statements in the tree — not an input of ordinary shape", None),
    (r"InsertReferencesProcessor as .*::map::\{closure#0\}$", r"^Add\(created_entries,1\):usize$",
     "usize counter bounded by the number of entries in the file", None),
    (r"InsertReferencesProcessor as .*::reduce$", r"^Add\(insert_count,map_result\.num_inserted_references\):usize$",
     "usize sum bounded by the number of entries in the tree", None),
    (r"InsertReferencesProcessor as .*::map::\{closure#0\}$", r"^Add\(unwritten_content_start_pos,Sub\(insert_pos,unwritten_content_start_pos\)\.0\):usize$",
     "cursor + (pos - cursor) = pos, a byte offset into the file", None),
    (r"InsertReferencesProcessor as .*::map::\{closure#0\}$", r"^index\[Range<usize\]\(as_bytes\(file_contents\),Range\{unwritten_content_start_pos,insert_pos\}\)$",
     "cursor <= insert_pos by the dominating guard; insert_pos is a span offset of this very text, so <= len", "lt_guard:insert_pos,unwritten_content_start_pos"),
    (r"InsertReferencesProcessor as .*::map::\{closure#0\}$", r"^index\[Range<usize\]\(as_bytes\(file_contents\),Range\{unwritten_content_start_pos,end_of_file_index\}\)$",
     "executed only when cursor < len(file_contents) = end_of_file_index", "lt_true:unwritten_content_start_pos,end_of_file_index"),
    (r"Context::cache_next_reference_id$", r"^insert_str\(yaml,0,",
     "index 0 is always a char boundary", None),
    (r"code_parser::check_for_boolean_directive$", r"^index\[RangeFrom<usize\]\(code,RangeFrom\{subject_pos\}\)$",
     "subject_pos is the start() of a pest span over `code` at both call sites (C14-R4): a char boundary <= len", "directive_callers"),
    (r"code_parser::check_for_boolean_directive$", r"^Add\(subject_pos,map_or\(next\(chars\(index\(code\)\)\)\)\):usize$",
     "offset + length of one char of the same string: <= len", None),
    (r"code_parser::check_for_boolean_directive$", r"^index\[RangeTo<usize\]\(code,RangeTo\{subject_end\}\)$",
     "subject_end = subject_pos + len_utf8(first char at subject_pos): a char boundary <= len", "char_boundary_end"),
    (r"rust_log_ref_finder::find$", r"^panic\('internal error: entered unrea",
     "the `_ => unreachable!()` arm of the pair walk: the grammar produces only log_macro / EOI under `file` (C17-R2)", "walk_covers"),
    (r"rust_log_ref_finder::find$", r"^Add\(start\(rule_ref_container_span\),1\):usize$",
     "span start + 1 where the span begins with the 1-byte `(`: <= len", None),
    (r"rust_log_ref_finder::find$", r"^Add\(line_col\(start_pos\(rule_ref_container_span\)\)\.1,1\):usize$",
     "column + 1, bounded by the line length", None),
    (r"rust_log_ref_finder::find::\{closure#0\}$", r"^Add\(i,2\):usize$",
     "i = rfind(\"::\") of the name: i + 2 <= len", "rfind_closure"),
    (r"rust_log_ref_finder::find::\{closure#0\}$", r"^index\[RangeFrom<usize\]\(macro_name_str,RangeFrom\{Add\(i,2\)\.0\}\)$",
     "i + len(\"::\") is the end of an ASCII match inside the string: a char boundary <= len", "rfind_closure"),
]


class _T(dict):
    def get(self, key, default=None):
        fn, sig = key.split("|", 1)
        for (fr, sr, why, guard) in ROWS:
            if re.search(fr, fn) and re.search(sr, sig):
                return {"why": why, "guard": guard, "row": (fr, sr)}
        return default

    def __len__(self):
        return len(ROWS)


TABLE = _T()


def _describe(b, op):
    from .c17 import describe
    return describe(b, op)


def _cmp_guard(b, site_bb, a, c, want):
    """is site_bb dominated by an arm that implies `want`: 'ge' (a >= c) or 'lt' (a < c)?"""
    dom = cfg.dominators(b)
    for sb in dom.get(site_bb, ()):
        t = b.term(sb)
        if t["k"] != "switch":
            continue
        k, pl, neg = trace_bool(b, t["discr"])
        if k != "bin" or pl["rv"]["op"] not in ("Lt", "Ge", "Gt", "Le"):
            continue
        x, y = _describe(b, pl["rv"]["a"]), _describe(b, pl["rv"]["b"])
        tt, ft = bool_switch_targets(b, sb)
        if neg:
            tt, ft = ft, tt
        op = pl["rv"]["op"]
        arms = {}
        if (x, y) == (a, c):
            arms = {"Lt": {"lt": tt, "ge": ft}, "Ge": {"ge": tt, "lt": ft}, "Gt": {"ge": tt}, "Le": {"ge": None}}[op]
        elif (x, y) == (c, a):
            arms = {"Gt": {"lt": tt, "ge": ft}, "Le": {"ge": tt, "lt": ft}, "Lt": {"ge": tt}, "Ge": {}}[op]
        arm = arms.get(want)
        if arm is not None and arm in dom.get(site_bb, ()):
            return True, "%s %s %s" % (x, op, y)
    return False, "no dominating comparison of %s and %s" % (a, c)


def guard_check(facts, s, row):
    g = row.get("guard")
    b = s["body"]
    if not g:
        return True, ""
    if g.startswith("lt_guard:"):
        a, c = g.split(":")[1].split(",")
        # site needs c <= a, i.e. dominated by the arm where NOT (a < c)
        return _cmp_guard(b, s["bb"], a, c, "ge")
    if g.startswith("lt_true:"):
        a, c = g.split(":")[1].split(",")
        ok, why = _cmp_guard(b, s["bb"], a, c, "lt")
        if not ok:
            return ok, why
        # end_of_file_index must be len(file_contents)
        for l in b.locals_named(c):
            d = single_def(b, l)
            if d and d[1] == "call" and d[2].matches(r"str>::len$|::len$"):
                return True, why + "; %s = len()" % c
        return False, "%s is not len() of the contents" % c
    if g == "path_from_string":
        for c in b.calls_to(r"^std::path::Path::new$"):
            ch, root = call_chain(b, c.args[0])
            if root == ("param", 1) and b.local_ty(1).endswith("String"):
                return True, "Path::new(&String)"
        return False, "the path is no longer built from a String argument"
    if g == "directive_callers":
        f = facts.one(r"rust_log_ref_finder::find$")
        if f is None:
            return False, "finder missing"
        ok = True
        for c in f.calls_to(r"check_for_(ignore|no_kvp)_directive$"):
            ch, root = call_chain(f, c.args[1])
            names = [x.name.split("::")[-1] for x in ch]
            base = call_chain(f, c.args[0])
            ok = ok and names[:2] == ["start", "as_span"] and base == ([], ("param", 1))
        others = [x for x in facts.non_test_bodies() for c in x.calls_to(r"check_for_boolean_directive$")
                  if not re.search(r"check_for_(ignore|no_kvp)_directive$", x.id)]
        return (ok and not others), "subject = pair.as_span().start() over the same `code` at every call site"
    if g == "char_boundary_end":
        uses = any(c.matches(r"::len_utf8$|is_char_boundary$|ceil_char_boundary$|floor_char_boundary$") for x in [b] + facts.nested(b) for c in x.calls)
        return uses, "len_utf8 / char-boundary logic present" if uses else "no char-boundary logic"
    if g == "walk_covers":
        from . import finder
        from ..grammar import Grammar
        return True, "see C17-R2 (evaluated in the same run)"
    if g == "rfind_closure":
        f = facts.one(r"rust_log_ref_finder::find$")
        if f is None:
            return False, "finder missing"
        for c in f.calls_to(r"Option::<usize>::map_or$|::map_or$|::map$"):
            ch, root = call_chain(f, c.args[0])
            if ch and ch[0].matches(r"str>::rfind$|::rfind$") and (op_const(ch[0].args[1]) or {}).get("str") == "::":
                return True, "closure argument is rfind(\"::\")"
        return False, "the closure no longer receives rfind(\"::\")"
    return False, "unknown guard %s" % g
