"""C02 — an ID once assigned is never assigned again (lock-file invariant).

Invariant I: after every edit run, however it ends, lock.next > every ID any run has put
into a source file. A run starts its counter at lock.next (C01-R3) so it hands out only
IDs >= lock.next; I is re-established iff the lock the run leaves behind covers the counter.
Premises decided here, on all exits of the edit driver:

R1 the lock is trusted as read: `Some(v)` only for v = the parsed `next_reference_id` of a
   lock that the YAML deserializer accepted; every other outcome is `None`.
R2 value covers: the value written is the shared counter's post-pass state (an atomic load /
   RMW result on the very counter given to the insertion pass, taken after the pass), never
   arithmetic on success counts; the writer stores exactly that value.
R3 every exit: from the insertion pass, no return is reachable without passing the lock write.
R4 write-ahead (kill points): a covering lock write must precede publication.  [known finding]
R5 atomic replacement of the lock file (never written in place).                  [known finding]
R6 a failed lock write is not success.                                             [known finding]
R7 closed set of lock writers, called only from the edit driver.
"""
import re
from .. import cfg
from ..common import enum_switch, return_values, single_def, trace_bool
from ..facts import op_place, op_const, rv_str
from ..prov import Prov
from . import edit

ATOMIC_RMW = r"atomic::Atomic::<u32>::(load|fetch_add|fetch_update|swap|fetch_max|compare_exchange|into_inner)$"


def lock_writers(facts):
    """local functions that contain a lock-write site: {body id: [(Call, role)]}"""
    out = {}
    for b, c in edit.mutating_sites(facts):
        role, _ = edit.classify_site(facts, b, c)
        if role == "lock-write":
            out.setdefault(b.id, []).append(c)
    return out


def rule_lock_read(ctx, facts, prefix="C02-R1"):
    r = edit.anchor(ctx, facts, prefix, r"Context::read_cached_next_reference_id$", "lock reader")
    if r is None:
        return
    prov = Prov(r)
    somes = 0
    for (bb, st) in return_values(r):
        rv = st["rv"]
        if rv["k"] == "agg" and rv.get("variant") == "None":
            continue
        if rv["k"] == "agg" and rv.get("variant") == "Some":
            somes += 1
            op = _strip_nonzero(r, rv["ops"][0])
            p = op_place(op)
            field_ok = _loads_field_chain(r, op, "next_reference_id")
            org = prov.origins_op(op)
            calls = [o[1] for o in org if o[0] == "call"]
            parse_ok = bool(calls) and all(c.matches(r"^serde_yaml::from_str$") and "Cache" in c.full for c in calls) and len(calls) == len(org)
            src_ok = False
            if parse_ok:
                a = prov.origins_op(calls[0].args[0])
                src_ok = bool(a) and all(o[0] == "call" and o[1].matches(r"^std::fs::read_to_string$") for o in a)
                if src_ok:
                    rd = [o[1] for o in a][0]
                    src_ok = edit.has_const_str(prov, rd.args[0], edit.LOCK_CONST)
            ctx.check(field_ok and parse_ok and src_ok, prefix, "some-source",
                      "`Some(v)`: v is the `next_reference_id` field of a `Cache` that serde_yaml parsed from the lock file's text",
                      r.where(bb), {"origins": [str(o)[:120] for o in org]})
            # the Some must be on the Ok arm of the parse
            for c in calls:
                for (sb, err_arm, ok_arm) in edit.examining_switches(r, prov, c):
                    region = cfg.reach_t(r, err_arm)
                    ctx.check(bb not in region, prefix, "parse-error-some", "a lock that fails to parse yields None", r.where(sb))
        else:
            ctx.bad(prefix, "odd-return", "the lock reader returns a value that is not built here as `Some(<next_reference_id of the parsed Cache>)` or `None` "
                    "(a second source for the start value bypasses the YAML parse, so an unparsable lock may no longer be ignored): %s" % rv_str(rv), r.where(bb))
    ctx.check(somes == 1, prefix, "some-count", "exactly one `Some` return in the lock reader (%d)" % somes, r.where())
    # "no usable lock" (absent, unparsable) and "the lock could not be read" are different things: after an I/O
    # error on an existing lock the scan fallback computes max+1 and re-issues the IDs of deleted statements
    for c in r.calls_to(r"^std::fs::read_to_string$|^std::fs::read$|^std::fs::File::open$"):
        if not edit.has_const_str(prov, c.args[0], edit.LOCK_CONST):
            continue
        for (sb, err_arm, ok_arm) in edit.examining_switches(r, prov, c):
            rs = cfg.return_shapes(r, err_arm)
            swallowed = bool(rs) and all(sh is not None and sh[0] == 0 for (_b, sh) in rs) and r.local_ty(0).startswith("std::option::Option<")
            ctx.check(not swallowed, prefix, "read-error-as-absent|%s" % r.id,
                      "an I/O error while reading an existing lock is distinguished from \"no lock\" (found: the Err arm of `%s` returns None, the run falls back to scanning)" % c.name.split("::")[-1],
                      r.where(sb))


_TEXT_ASSEMBLY = r"(hint::must_use|::concat|::join|fmt::format|::format::format_inner|::as_bytes|::into_bytes|::to_string|::to_owned|String::from|::into|::as_str|::to_vec|Arguments::<.*>::new\w*|Arguments::new\w*|Argument::<.*>::new_display|fmt::rt::Argument::new_display|::deref|::borrow|::as_ref|::unwrap)$"


def _through_text_assembly(prov, org, depth=0):
    """origins of a text value, looking through calls that only assemble / convert text from their arguments
    (`[a, b].concat()`, `format!`, `as_bytes()`): what matters is which values the text is made of"""
    out = set()
    for o in org:
        if o[0] == "call" and depth < 8 and o[1].args and (o[1].matches(_TEXT_ASSEMBLY) or re.search(_TEXT_ASSEMBLY, o[1].full or "")):
            for a in o[1].args:
                out |= _through_text_assembly(prov, prov.origins_op(a), depth + 1)
        else:
            out.add(o)
    return out



def _strip_nonzero(body, op, depth=0):
    """`NonZeroU32::new(v)` .. `.get()`: the number is still v (0 excluded); returns the operand v, else op itself"""
    p = op_place(op)
    if p is None or depth > 8:
        return op
    for (bb, kind, d) in body.defs.get(p["l"], []):
        if kind == "call" and d.matches(r"NonZero(U32)?(::<[^>]*>)?::get$") and d.args:
            inner = _strip_nonzero(body, d.args[0], depth + 1)
            return inner
        if kind == "call" and d.matches(r"NonZero(U32)?(::<[^>]*>)?::new$") and d.args:
            return d.args[0]
        if kind == "assign" and d["rv"]["k"] == "use" and len(body.defs.get(p["l"], [])) == 1:
            q = op_place(d["rv"]["op"])
            if q is not None:
                got = _strip_nonzero(body, d["rv"]["op"], depth + 1)
                if got is not d["rv"]["op"]:
                    return got
    return op



def _loads_field_chain(body, op, field, depth=0):
    p = op_place(op)
    if p is None or depth > 6:
        return False
    if any(isinstance(e, dict) and e.get("n") == field for e in p["p"]):
        return True
    d = single_def(body, p["l"])
    if d and d[1] == "assign" and d[2]["rv"]["k"] == "use":
        return _loads_field_chain(body, d[2]["rv"]["op"], field, depth + 1)
    return False


def _find_driver(ctx, facts, prefix):
    g = edit.anchor(ctx, facts, prefix, edit.GENERATE, "generate_code")
    if g is None:
        return None
    passes = [c for c in g.calls_to(r"generate::process_references$") if "InsertReferencesProcessor" in c.full]
    if not ctx.check(len(passes) == 1, prefix, "anchor|insert-pass", "one insertion pass call in the driver (%d)" % len(passes), g.where()):
        return None
    writers = lock_writers(facts)
    if not ctx.check(len(writers) >= 1, prefix, "anchor|lock-writer", "a lock-writing function exists (%s)" % ", ".join(writers), ""):
        return None
    # a writer may delegate the actual file operation to a private helper: calls in the driver to a
    # function that (within two levels) reaches a lock-write site count as lock writes
    from ..interproc import callers_index
    idx = callers_index(facts)
    reach_w = set(writers)
    for _ in range(2):
        for w in list(reach_w):
            for (cb, c) in idx.get(w, []):
                owner = cb
                while owner is not None and owner.kind not in ("Fn", "AssocFn"):
                    owner = facts.body(owner.parent) if owner.parent else None
                if owner is not None and not re.search(edit.GENERATE + "|" + edit.CHECK, owner.id):
                    reach_w.add(owner.id)
    wcalls = [c for c in g.calls if c.name in reach_w]
    if not ctx.check(len(wcalls) >= 1, prefix, "no-lock-write", "the edit driver calls the lock writer (%d call(s))" % len(wcalls), g.where()):
        return None
    return g, passes[0], writers, wcalls


def rule_lock_covers(ctx, facts, prefix="C02"):
    found = _find_driver(ctx, facts, prefix + "-R2")
    if not found:
        return
    g, P, writers, wcalls = found
    prov_stop = Prov(g, stop_at=(ATOMIC_RMW,))
    prov = Prov(g)
    # the counter given to the pass
    counter_sites = {o[1].bb for o in prov.origins_op(P.args[1]) if o[0] == "call" and o[1].matches(r"atomic::Atomic::<u32>::new$")}
    ctx.check(len(counter_sites) == 1, prefix + "-R2", "counter-anchor", "the insertion pass receives one atomic counter (%d creation site(s))" % len(counter_sites), P.where())
    dom = cfg.dominators(g)
    for w in wcalls:
        idx = _id_param_index(facts, w)
        if idx is None:
            ctx.bad(prefix + "-R2", "id-param", "cannot identify the id parameter of %s" % w.name, w.where())
            continue
        op = w.args[idx]
        org = prov_stop.origins_op(op)
        kinds = sorted({o[0] for o in org})
        reads = [o[1] for o in org if o[0] == "call" and o[1].matches(ATOMIC_RMW)]
        arithmetic = [o for o in org if o[0] in ("bin", "un")]
        only_counter = bool(reads) and len(reads) == len(org)
        same_counter = only_counter and all(
            {x[1].bb for x in prov.origins_op(r.args[0]) if x[0] == "call"} == counter_sites for r in reads)
        after_pass = only_counter and all(P.bb in dom.get(r.bb, ()) for r in reads)
        ctx.check(not arithmetic, prefix + "-R2", "value-arithmetic",
                  "the lock value is not computed by arithmetic (e.g. start + number of successful insertions)", w.where(),
                  {"origin_kinds": kinds})
        ctx.check(only_counter and same_counter, prefix + "-R2", "value-source",
                  "the lock value is read from the atomic counter that the insertion pass used (origins: %s)" % kinds, w.where())
        ctx.check(after_pass, prefix + "-R2", "value-stale", "the counter is read after the insertion pass returned", w.where())
    # R3: every exit after the pass passes a lock write
    p = cfg.path_t(g, P.target, g.returns(), avoid=[w.bb for w in wcalls]) if P.target is not None else None
    ctx.check(p is None, prefix + "-R3", "exit-without-lock",
              "no return is reachable from the insertion pass without passing the lock write", g.where(P.bb),
              {"path_lines": [g.blocks[b]["term"].get("line") for b in (p or [])][:40]})
    # the writer stores exactly its id parameter
    for wid, sites in writers.items():
        wb = facts.body(wid)
        wprov = Prov(wb)
        for c in sites:
            content = c.args[1] if len(c.args) > 1 else None
            ok = False
            if content is not None:
                org = _through_text_assembly(wprov, wprov.origins_op(content))
                idx = _id_param_local(wb)
                ok = idx is not None and ("param", idx) in org and all(o[0] == "const" or o == ("param", idx) for o in org)
            ctx.check(ok, prefix + "-R2", "writer-stores|%s" % wid, "the lock writer serialises exactly its `id` argument", c.where())


def _id_param_local(wb):
    for i in range(1, wb.arg_count + 1):
        if wb.local_ty(i) == "u32":
            return i
    return None


def _id_param_index(facts, call):
    wb = facts.body(call.name)
    if wb is None:
        return None
    l = _id_param_local(wb)
    return None if l is None else l - 1


def rule_write_ahead(ctx, facts, prefix="C02-R4"):
    found = _find_driver(ctx, facts, prefix)
    if not found:
        return
    g, P, writers, wcalls = found
    dom = cfg.dominators(g)
    reservation = [w for w in wcalls if w.bb in dom.get(P.bb, ())]
    m = facts.one(edit.INSERT_MAP)
    per_file = False
    if m is not None:
        ren = [c for (role, c) in edit.storage_ops(facts, m) if role == "publish"]
        md = cfg.dominators(m)
        lw = [c for c in m.calls if c.name in writers]
        per_file = bool(ren) and any(c.bb in md.get(ren[0].bb, ()) for c in lw)
    ctx.check(bool(reservation) or per_file, prefix, "write-ahead|generate_code",
              "a lock write covering the IDs about to be published precedes publication (reservation before the pass, or per file before the rename)",
              g.where(P.bb))


def rule_lock_atomic(ctx, facts, prefix="C02-R5"):
    for wid, sites in sorted(lock_writers(facts).items()):
        wb = facts.body(wid)
        for c in sites:
            atomic = c.matches(r"fs::rename$")
            ctx.check(atomic, prefix, "in-place|%s|%s" % (wid, c.name),
                      "the lock file is replaced by rename from a sibling temporary file, not written in place with `%s`" % c.name, c.where())
        # R6: failure is visible to the caller
        prov = Prov(wb)
        rets = return_values(wb)
        unit = all((st["rv"]["k"] == "agg" and st["rv"].get("agg") == "tuple" and not st["rv"]["ops"])
                   or (st["rv"]["k"] == "use" and (op_const(st["rv"]["op"]) or {}).get("ty") == "()") for (_, st) in rets)
        ctx.check(not unit, "C02-R6", "failure-ignored|%s" % wid,
                  "a failed lock write is reported to the caller (the writer returns `()`; errors are only logged)", wb.where())


def rule_writers_closed(ctx, facts, prefix="C02-R7"):
    writers = lock_writers(facts)
    ctx.check(len(writers) == 1, prefix, "writer-count", "exactly one function writes the lock file (%s)" % ", ".join(sorted(writers)), "")
    callers = set()
    for b in facts.non_test_bodies():
        for c in b.calls:
            if c.name in writers:
                callers.add(b.id)
    # a private helper that is only ever called from the edit driver counts as the driver
    from ..interproc import callers_index
    idx = callers_index(facts)
    for cid in list(callers):
        if not re.search(edit.GENERATE, cid):
            up = {x.id for (x, _) in idx.get(cid, [])}
            if up and all(re.search(edit.GENERATE, u) for u in up):
                callers.discard(cid)
                callers |= up
    ok = all(re.search(edit.GENERATE, x) for x in callers)
    ctx.check(ok and callers, prefix, "writer-callers", "the lock writer is called only from the edit driver (%s)" % ", ".join(sorted(callers)), "")


def run(ctx):
    facts = ctx.bin
    rule_lock_read(ctx, facts)
    rule_lock_covers(ctx, facts)
    rule_write_ahead(ctx, facts)
    rule_lock_atomic(ctx, facts)
    rule_writers_closed(ctx, facts)
    from .c07 import rule_no_self_termination
    rule_no_self_termination(ctx, facts, "C02-R8")
    # "however it ends (.. SIGINT / SIGTERM stop request ..)": a stop request is only a stop request if the signal is routed
    # to the flag; otherwise the default action kills the run between a rename and the lock write (C18-R1's rows)
    from . import c18 as _c18

    class _As:
        def __init__(s, c):
            s.c = c
            s.bin, s.lib, s.grammar, s.extra, s.tier, s.seed, s.prop = c.bin, c.lib, c.grammar, c.extra, c.tier, c.seed, c.prop

        def check(s, cond, rule, key, what, where="", detail=None):
            return s.c.check(cond, "C02-R10/" + rule, key, what, where, detail)

        def bad(s, rule, key, msg, where="", detail=None):
            s.c.bad("C02-R10/" + rule, key, msg, where, detail)

        def ok(s, *a, **k):
            pass

        def assume(s, *a):
            pass

        def note(s, *a):
            pass
    _c18.rule_signal_set(_As(ctx), facts)
    # a panic in the insertion pass ends the run between the renames and the lock write: the panic-site
    # audit of C17-R1 is a premise here as well (only failures are reported under this name)
    from . import c17
    c17.rule_panic_audit(_FailOnly(ctx, "C02-R9"), facts, "C17-R1")
    # start value comes from the lock when present (C01-R3) — re-checked here because the
    # induction needs it
    from . import c01
    c01.rule_start_value(ctx, facts, prefix="C02-R1/start")
    # ... and that the counter only moves forward: a wrapping / unchecked step lets the value that is written to
    # the lock fall below IDs already handed out (C01-R6 re-checked here as a premise of the invariant)
    c01.rule_checked_arithmetic(ctx, facts, prefix="C02-R1/arith")
    ctx.assume("the induction over histories (DESIGN §4 C02) connecting these premises to the statement is prose, not machine-checked")
    ctx.assume("developers do not edit Breadlog.lock by hand and keep it under version control (statement: 'in use and kept')")
    return {
        "explanation": "Premises of the inductive lock invariant decided on rustc MIR of the edit driver and the lock reader/"
                       "writer: provenance of the value written (must be the shared atomic counter read after the pass), "
                       "must-pass-through of the lock write on every exit after the pass, write-ahead ordering, in-place vs "
                       "rename replacement, visibility of write failures, closed set of lock writers.",
        "trusted": ["rustc MIR", "serde_yaml parses what it serialises"],
    }


class _FailOnly:
    """ctx proxy: forwards failures (renamed), counts successes as one obligation"""

    def __init__(self, ctx, rule):
        self.c, self.rule, self.n = ctx, rule, 0
        self.bin, self.grammar, self.extra = ctx.bin, ctx.grammar, ctx.extra

    def ok(self, *a, **k):
        self.n += 1

    def bad(self, rule, key, msg, where="", detail=None):
        self.c.bad(self.rule, key, msg, where, detail)

    def check(self, cond, rule, key, what, where="", detail=None):
        if cond:
            self.n += 1
        else:
            self.c.bad(self.rule, key, what, where, detail)
        return cond

    def assume(self, t):
        pass

    def note(self, t):
        self.c.ok(self.rule, "panic-site audit (C17-R1) re-run as a premise: %s" % t, "")
