"""Grammar attribute rules G1-G15 (DESIGN §3.6), computed from the pest AST — no text is
matched. Each function takes (ctx, g, prefix) and records obligations."""
from ..grammar import flatten

WS_REQUIRED = [" ", "\t", "\n", "\r"]
MODIFIERS = ["?", "debug", "%", "display", "err", "sval", "serde"]


def need(ctx, g, prefix, names):
    ok = True
    if getattr(g, "error", None):
        ctx.bad(prefix, "grammar-parse", "the grammar does not parse with pest_meta: %s" % g.error, "src/parser/rust_grammar.pest")
        return False
    for n in names:
        if not ctx.check(n in g.rules, prefix, "anchor|rule|" + n, "grammar rule `%s` exists" % n, "src/parser/rust_grammar.pest"):
            ok = False
    return ok


W = "src/parser/rust_grammar.pest"


def g1_whitespace(ctx, g, prefix):
    if not need(ctx, g, prefix, ["WHITESPACE"]):
        return
    alts = g.choices_of(g.expr("WHITESPACE"))
    singles = all(a["k"] == "str" and len(a["v"]) == 1 for a in alts)
    have = {a["v"] for a in alts if a["k"] == "str"}
    ctx.check(singles, prefix, "G1|ws-single", "G1: every WHITESPACE alternative is a single character", W)
    missing = [repr(c) for c in WS_REQUIRED if c not in have]
    ctx.check(not missing, prefix, "G1|ws-set", "G1: WHITESPACE ⊇ {space, tab, LF, CR} (missing: %s)" % (missing or "none"), W)
    ctx.check(g.ty("WHITESPACE") == "silent", prefix, "G1|ws-silent", "G1: WHITESPACE is silent", W)


def _comment_alts(g):
    return [flatten(g.inline(a), "seq") for a in g.choices_of(g.expr("COMMENT"))]


def g2_comment(ctx, g, prefix):
    if not need(ctx, g, prefix, ["COMMENT"]):
        return
    ctx.check(g.ty("COMMENT") == "silent", prefix, "G2|comment-silent", "G2: COMMENT is silent", W)
    firsts = [s[0]["v"] if s and s[0]["k"] == "str" else None for s in _comment_alts(g)]
    ctx.check("//" in firsts, prefix, "G2|line-alt", "G2: COMMENT has an alternative opening with `//`", W)
    ctx.check("/*" in firsts, prefix, "G2|block-alt", "G2: COMMENT has an alternative opening with `/*`", W)
    for s in _comment_alts(g):
        if s and s[0]["k"] == "str" and s[0]["v"] == "/*":
            body_ok = len(s) == 3 and s[1]["k"] == "rep" and s[2]["k"] == "str" and s[2]["v"] == "*/" and _guarded_any(s[1]["e"], "*/")
            ctx.check(body_ok, prefix, "G2|block-body", "G2: block comment = `/*` (!`*/` ANY)* `*/`", W)
        if s and s[0]["k"] == "str" and s[0]["v"] == "//":
            body_ok = len(s) >= 2 and s[1]["k"] == "rep" and _guarded_any(s[1]["e"], "\n")
            ctx.check(body_ok, prefix, "G2|line-body", "G2: line comment body = (!LF ANY)*", W)


def _guarded_any(e, stop):
    parts = flatten(e, "seq")
    return len(parts) == 2 and parts[0]["k"] == "neg" and parts[0]["e"]["k"] == "str" and parts[0]["e"]["v"] == stop \
        and parts[1]["k"] == "ident" and parts[1]["v"] == "ANY"


def g3_comment_eoi(ctx, g, prefix):
    if not need(ctx, g, prefix, ["COMMENT"]):
        return
    found = False
    for s in _comment_alts(g):
        if s and s[0]["k"] == "str" and s[0]["v"] == "//":
            found = True
            tail = s[2:] if len(s) > 2 else []
            ok = all(g.eoi_ok(t) for t in tail)
            ctx.check(ok, prefix, "G3|line-comment-eoi",
                      "G3: a `//` comment may end at end of input (what follows the body can succeed with no input left)", W)
    ctx.check(found, prefix, "G3|anchor", "G3: line-comment alternative found", W)


def g4_non_atomic(ctx, g, prefix):
    for n in ["file", "log_macro", "macro_args", "kvp_args"]:
        if need(ctx, g, prefix, [n]):
            ctx.check(g.ty(n) in ("normal", "non_atomic", "silent"), prefix, "G4|%s" % n,
                      "G4: `%s` is non-atomic (layout and comments between its tokens are skipped): %s" % (n, g.ty(n)), W)


def g5_name_atomic(ctx, g, prefix):
    if need(ctx, g, prefix, ["macro_name"]):
        ctx.check(g.lexical("macro_name"), prefix, "G5|macro_name-lexical", "G5: macro_name is built from character-level terminals", W)
        ctx.check(g.ty("macro_name") in ("atomic", "compound_atomic"), prefix, "G5|macro_name-atomic",
                  "G5: macro_name is atomic (no implicit whitespace/comment skipping inside the name): %s" % g.ty("macro_name"), W)
        parts = g.seq_of("macro_name")
        head = g.first(parts[0]) if parts else set()
        ctx.check(("class", "XID_START") in head and ("chr", "_") in head, prefix, "G5|macro_name-head", "G5: a name starts with XID_START or `_`", W)
        ctx.check("XID_CONTINUE" in g.idents(g.inline(g.expr("macro_name"))), prefix, "G5|macro_name-tail", "G5: a name continues with XID_CONTINUE", W)


def g6_modifiers(ctx, g, prefix):
    if not need(ctx, g, prefix, ["kvp_modifiers"]):
        return
    voc = g.vocab(g.expr("kvp_modifiers"))
    missing = [m for m in MODIFIERS if m not in voc]
    ctx.check(not missing, prefix, "G6|modifier-vocab", "G6: capture modifiers ⊇ {?, debug, %%, display, err, sval, serde} (missing: %s)" % (missing or "none"), W)
    parts = g.seq_of("kvp_modifiers")
    ctx.check(parts and parts[0]["k"] == "str" and parts[0]["v"] == ":", prefix, "G6|modifier-colon", "G6: a modifier is introduced by `:`", W)
    # word modifiers end at an identifier boundary (`target: debug_target` is not key `target` with `:debug`)
    words = [m_ for m_ in MODIFIERS if m_.isalpha()]
    bounded = True
    detail = []
    for rn, r in g.rules.items():
        direct = {a_["v"] for a_ in flatten(r["expr"], "choice") if a_["k"] == "str"} | \
                 {a_["v"] for p_ in flatten(r["expr"], "seq") for a_ in flatten(p_, "choice") if a_["k"] == "str"}
        if direct & set(words):
            sq = flatten(r["expr"], "seq")
            guard = len(sq) >= 2 and sq[-1]["k"] == "neg" and "XID_CONTINUE" in g.idents(sq[-1]["e"])
            okr = r["ty"] in ("atomic", "compound_atomic") and guard
            detail.append("%s:%s" % (rn, "bounded" if okr else "prefix match"))
            bounded = bounded and okr
    ctx.check(bounded and bool(detail), prefix, "G6|modifier-word", "G6: a word modifier is matched as a whole word (atomic rule ending in !XID_CONTINUE): %s" % detail, W)
    if len(parts) >= 2:
        alts = [a["v"] for a in g.choices_of(parts[1]) if a["k"] == "str"]
        shadow = [(alts[i], alts[j]) for i in range(len(alts)) for j in range(i + 1, len(alts)) if alts[j].startswith(alts[i]) and alts[i] != alts[j]]
        ctx.check(not shadow, prefix, "G6|modifier-shadow", "G6: no modifier alternative is shadowed by an earlier strict prefix (%s)" % (shadow or "none"), W)


def _message_guard(g):
    """negative look-aheads that follow the message literal at the end of macro_args: they consume nothing and
    can only reject. Returns (parts without them, set of first characters they reject)"""
    parts = flatten(g.rules["macro_args"]["expr"], "seq")
    rejected = set()
    while parts and parts[-1]["k"] == "neg":
        rejected |= g.first(g.inline(parts[-1]["e"]))
        parts = parts[:-1]
    return parts, rejected


def _macro_args_shape(g):
    parts, _rej = _message_guard(g)
    desc = []
    for p in parts:
        if p["k"] == "str":
            desc.append(("str", p["v"]))
        elif p["k"] == "ident":
            desc.append(("rule", p["v"]))
        elif p["k"] == "opt" and p["e"]["k"] == "ident":
            desc.append(("opt", p["e"]["v"]))
        else:
            desc.append(("other", p["k"]))
    return desc


def g7_literal_mandatory(ctx, g, prefix):
    if not need(ctx, g, prefix, ["macro_args", "string_literal"]):
        return
    d = _macro_args_shape(g)
    ctx.check(bool(d) and d[-1] == ("rule", "string_literal"), prefix, "G7|literal-last", "G7: macro_args ends with a mandatory string_literal (%s)" % d, W)
    # what may follow the message in a canonical statement is `,` or `)` (or white space / a comment): a look-ahead
    # after the literal must not reject those
    _parts, rej = _message_guard(g)
    bad = sorted(str(x) for x in rej if x in (("chr", ","), ("chr", ")"), ("chr", "/"), ("chr", " "), ("chr", "\n"), ("chr", "\t"), ("chr", "\r")) or x[0] in ("class", "range"))
    ctx.check(not bad, prefix, "G7|literal-follow", "G7: nothing that can follow the message of a canonical statement is rejected by a look-ahead after it (%s)" % (bad or sorted(str(x) for x in rej) or "no look-ahead"), W)
    ctx.check(not g.nullable(g.expr("string_literal")), prefix, "G7|literal-nonnull", "G7: string_literal cannot match the empty string", W)
    sl = g.seq_of("string_literal")
    ctx.check(sl and sl[0]["k"] == "str" and sl[0]["v"] == '"', prefix, "G7|literal-quote", "G7: string_literal opens with a double quote", W)


def g8_no_backslash_first(ctx, g, prefix):
    if not need(ctx, g, prefix, ["macro_args"]):
        return
    d = _macro_args_shape(g)
    firsts = set()
    for kind, name in d[1:]:
        if kind in ("rule", "opt") and name in g.rules:
            firsts |= g.first(g.expr(name))
    for sk in ("WHITESPACE", "COMMENT"):
        if sk in g.rules:
            firsts |= g.first(g.expr(sk))
    bad = [f for f in firsts if f == ("chr", "\\") or f == ("class", "ANY")]
    ctx.check(not bad, prefix, "G8|backslash-first", "G8: nothing that may follow `(` starts with a backslash or ANY (so `info!(\\\"x\\\")` inside a string never matches)", W)


STOPS_ALLOWED = {",", ";", "(", ")", "[", "]", "{", "}", '"', "\\", "'"}


def _free_char_alts(g, e):
    """alternatives of the shape `!(stops) ~ ANY` directly under a repetition / choice: [set of stop strings]"""
    out = []
    for alt in g.choices_of(e):
        parts = flatten(alt, "seq")
        if len(parts) == 2 and parts[0]["k"] == "neg" and parts[1].get("v") == "ANY":
            out.append({a_["v"] for a_ in g.choices_of(parts[0]["e"]) if a_["k"] == "str"})
    return out


def g9_kvp_value(ctx, g, prefix):
    """a key-value's value is an expression delimited by the next top-level `,` / `;`"""
    if not need(ctx, g, prefix, ["kvp_value"]):
        return
    e = g.inline(g.expr("kvp_value"))
    # accepted shapes: (free | string | group ..)+   or   head ~ (tail)*  (the older spelling)
    elems = None
    if e["k"] in ("rep1",):
        elems = e["e"]
    else:
        parts = flatten(e, "seq")
        if len(parts) == 2 and parts[1]["k"] == "rep":
            elems = parts[1]["e"]
    free = _free_char_alts(g, elems) if elems is not None else []
    stops = set().union(*free) if free else set()
    ctx.check(bool(free) and {",", ";"} <= stops, prefix, "G9|tail-stops", "G9: outside literals and brackets a value stops at `,` and `;` (so `ref = 5,` / `ref = 5;` read back as `5`): stops %s" % sorted(stops), W)
    ctx.check(bool(free) and stops <= STOPS_ALLOWED and not g.nullable(e), prefix, "G9|any-head",
              "G9: a value may begin with any character other than a separator, bracket, quote or backslash (`-1`, `&x`, `5`, `name`); it is never empty (stops %s)" % sorted(stops), W)
    ctx.check({")", "]", "}"} <= stops, prefix, "G9|balanced",
              "G9: a value never crosses an unbalanced closing bracket, so it cannot leave the invocation it belongs to "
              "(`if cfg!(feature = \"x\") { info!(n = 1; \"m\"); }`, `info!(count = n);` followed by a string literal)", W)
    # a backslash occurs in Rust source only inside string / char literals: nowhere else in a value
    bs_ok = "\\" in stops
    for r in g.rules:
        if r.startswith("kvp_") and r not in ("kvp_value", "kvp_args", "kvp_key", "kvp_modifiers") and g.rules[r]["ty"] == "silent":
            for st_ in _free_char_alts(g, g.rules[r]["expr"]) + [x for sub in flatten(g.rules[r]["expr"], "choice") for x in _free_char_alts(g, sub)]:
                if "'" in st_ and len(st_) <= 2:
                    continue   # inside a character literal
                bs_ok = bs_ok and "\\" in st_
    ctx.check(bs_ok, prefix, "G9|no-backslash", "G9: outside string and character literals a value contains no backslash "
              "(macro-like text in a string with escaped quotes, `\"info!(a = \\\"x\\\"; \\\"m\\\")\"`, is never matched)", W)
    # a string literal inside a value is one element by itself: the separator after it is not swallowed
    sl_alone = elems is not None and any(a_["k"] == "ident" and a_["v"] == "string_literal" for a_ in g.choices_of(elems))
    ctx.check(sl_alone, prefix, "G9|string-element", "G9: a string literal inside a value is matched by itself (`a = &\"x\", b` keeps its separator)", W)
    ctx.check(g.ty("kvp_value") != "silent" and g.ty("kvp_key") != "silent", prefix, "G9|kv-visible", "G9: kvp_key / kvp_value are visible to the finder", W)


def target_rule(g):
    """name of the optional rule of macro_args whose text begins with `target:` (found by role, not by name)"""
    if "macro_args" not in g.rules:
        return None
    for kind, name in _macro_args_shape(g):
        if kind in ("opt", "rule") and name in g.rules:
            # look at the rule's own expression (NOT inlined: a silent target rule must still be found)
            parts = flatten(g.rules[name]["expr"], "seq")
            if parts and parts[0].get("k") == "str" and (parts[0].get("v") == "target:" or (parts[0].get("v") == "target" and len(parts) > 1 and parts[1] == {"k": "str", "v": ":"})):
                return name
    return None


def g10_target_visible(ctx, g, prefix):
    if not need(ctx, g, prefix, ["macro_args"]):
        return
    T = target_rule(g)
    if not ctx.check(T is not None, prefix, "G10|target-rule", "G10: macro_args has an optional `target:` rule", W):
        return
    d = _macro_args_shape(g)
    between = []
    seen_open = False
    for kind, name in d:
        if (kind, name) == ("str", "("):
            seen_open = True
            continue
        if name == "kvp_args":
            break
        if seen_open:
            between.append((kind, name))
    only_target = all(name == T for _, name in between)
    ctx.check(only_target, prefix, "G10|between", "G10: between `(` and the key-values only the target argument may appear (%s)" % between, W)
    if any(name == T for _, name in between):
        ctx.check(g.ty(T) != "silent", prefix, "G10|target-visible",
                  "G10: the target rule `%s` is a visible pair, so the structured-new anchor can be placed after it" % T, W)
    ta = flatten(g.inline(g.rules[T]["expr"]), "seq")
    if len(ta) >= 2 and ta[0] == {"k": "str", "v": "target"} and ta[1] == {"k": "str", "v": ":"}:
        ta = [{"k": "str", "v": "target:"}] + ta[2:]     # keyword and colon as two tokens (layout allowed between them)
        two = True
    else:
        two = False
    ctx.check(two, prefix, "G10|target-tokens", "G10: `target` and `:` are separate tokens, so white space or a comment may stand between them (`target : \"t\"`)", W)
    if True:
        pass
    mid = ta[1:-1]
    firsts = set()
    for m in mid:
        firsts |= g.first(m)
        if not g.nullable(m):
            break
    mid_ok = bool(mid) and firsts == {("chr", '"')} and not all(g.nullable(m) for m in mid)
    ctx.check(len(ta) >= 3 and ta[0] == {"k": "str", "v": "target:"} and ta[-1] == {"k": "str", "v": ","} and mid_ok, prefix,
              "G10|target-shape", "G10: target_arg = `target:` <string literal> `,` and nothing else — the value can only start with a double quote "
              "(a target the grammar cannot delimit exactly must not be matched at all); FIRST = %s" % sorted(firsts), W)


def g11_no_recursion(ctx, g, prefix):
    if not need(ctx, g, prefix, ["file"]):
        return
    rec = g.recursive_rules()
    ctx.check(not rec, prefix, "G11|recursion", "G11: no grammar rule is recursive (bounded parser stack): %s" % (sorted(rec) or "none"), W)
    prod = g.produces("file")
    ctx.check(prod <= {"log_macro", "EOI"}, prefix, "G11|file-children", "G11: pairs directly under `file` are log_macro / EOI only (%s)" % sorted(prod), W)
    return prod


def g12_scan_strings(ctx, g, prefix, require_string=True):
    if not need(ctx, g, prefix, ["file"]):
        return
    parts = g.seq_of("file")
    loop = [p for p in parts if p["k"] == "rep"]
    if not ctx.check(len(loop) == 1, prefix, "G12|anchor", "G12: scan loop of `file` found", W):
        return
    alts = g.choices_of(loop[0]["e"])
    names = [a["v"] for a in alts if a["k"] == "ident"]
    ctx.check(names[:1] == ["log_macro"] and names[-1:] == ["ANY"], prefix, "G12|scan-shape", "G12: scan loop = (log_macro | … | ANY)* (%s)" % names, W)
    # G12c: `file` is non-atomic, so inside every alternative that is spelled out in it (or factored into a silent /
    # normal rule) WHITESPACE and COMMENT are skipped between the elements of a sequence and between the iterations of a
    # repetition: such an alternative runs across separators and swallows the name of the statement that follows
    # (`return warn!("..")` with a "skip a whole word" alternative). Extra alternatives must be atomic rules or single
    # terminals.
    def _skips(e, depth=0):
        if depth > 12:
            return True
        k = e["k"]
        if k == "ident":
            v = e["v"]
            if v not in g.rules:
                return False        # built-in terminal
            if g.rules[v]["ty"] in ("atomic", "compound_atomic"):
                return False
            return _skips(g.rules[v]["expr"], depth + 1)
        if k in ("seq", "rep", "rep_once", "rep_exact", "rep_min", "rep_max", "rep_min_max"):
            return True
        return any(_skips(e[key], depth + 1) for key in ("a", "b", "e") if key in e and isinstance(e[key], dict))
    extra = [a for a in flatten(loop[0]["e"], "choice") if not (a["k"] == "ident" and a["v"] in ("log_macro", "ANY"))]
    loose = [a for a in extra if _skips(a)]
    ctx.check(not loose, prefix, "G12|scan-alternative-atomic",
              "G12c: every extra alternative of the scan loop is an atomic rule or a single terminal (no implicit WHITESPACE / COMMENT "
              "skipping inside it, which would carry it across a separator into the next statement's name): %s"
              % ([a.get("v", a["k"]) for a in loose] or "none of %d" % len(extra)), W)
    has_str = any(("chr", '"') in g.first(a) for a in alts if not (a["k"] == "ident" and a["v"] in ("log_macro", "ANY")))
    if require_string:
        ctx.check(has_str, prefix, "G12|file-scan-loop|no-string-alternative",
                  "G12: the scan loop consumes ordinary string literals as units (otherwise `//` or `/*` inside a string starts a comment)", W)
    if has_str:
        has_chr = any(("chr", "'") in g.first(a) for a in alts if not (a["k"] == "ident" and a["v"] in ("log_macro", "ANY")))
        ctx.check(has_chr, prefix, "G12|string-without-char-literal",
                  "G12b: with a string alternative present, char literals must be consumed too (else `'\"'` opens a bogus string that can swallow a comment opener)", W)


def _is_ident_head(e, g):
    return g.first(e) >= {("class", "XID_START"), ("chr", "_")} and all(x in (("class", "XID_START"), ("chr", "_")) for x in g.first(e))


def g13_qualified(ctx, g, prefix):
    if need(ctx, g, prefix, ["macro_name"]):
        ctx.check("::" in g.vocab(g.expr("macro_name")), prefix, "G13|path-sep", "G13: macro_name admits `::` (qualified paths)", W)
        # every segment of the path is a whole identifier: `::` may follow a one-character segment too, otherwise
        # `m::info!(..)` is cut after `m`, the scan restarts at `info` and a foreign module's macro passes for a bare one
        parts = flatten(g.inline(g.expr("macro_name")), "seq")
        ok = False
        shape = [p["k"] for p in parts]
        if len(parts) == 3 and parts[1]["k"] == "rep" and parts[2]["k"] == "rep":
            head_ok = _is_ident_head(parts[0], g)
            cont_ok = parts[1]["e"]["k"] == "ident" and parts[1]["e"]["v"] == "XID_CONTINUE"
            seg = flatten(parts[2]["e"], "seq")
            seg_ok = len(seg) == 3 and seg[0] == {"k": "str", "v": "::"} and _is_ident_head(seg[1], g) and seg[2]["k"] == "rep" \
                and seg[2]["e"]["k"] == "ident" and seg[2]["e"]["v"] == "XID_CONTINUE"
            ok = head_ok and cont_ok and seg_ok
        ctx.check(ok, prefix, "G13|path-shape", "G13: macro_name = identifier (`::` identifier)* — a path segment of any length, also one character (%s)" % shape, W)


def statement_shape(g):
    """token shape of a whole statement: log_macro's sequence with macro_args spliced in, so the verdict does
    not depend on which of the two rules holds the opening bracket"""
    out = []
    for p in flatten(g.rules["log_macro"]["expr"], "seq"):
        if p["k"] == "ident" and p["v"] == "macro_args":
            out.extend(_macro_args_shape(g))
        elif p["k"] == "ident":
            out.append(("rule", p["v"]))
        elif p["k"] == "str":
            out.append(("str", p["v"]))
        elif p["k"] == "opt" and p["e"]["k"] == "ident":
            out.append(("opt", p["e"]["v"]))
        else:
            out.append(("other", p["k"]))
    return out


def args_leading_literals(g):
    """the literal tokens macro_args itself starts with (`(` today): the finder's byte shift from the start of
    the macro_args span to the first argument must equal their total length"""
    lead = []
    for kind, v in _macro_args_shape(g):
        if kind != "str":
            break
        lead.append(v)
    return lead


def g14_order(ctx, g, prefix):
    if not need(ctx, g, prefix, ["macro_args", "log_macro"]):
        return
    d = statement_shape(g)
    want = [("rule", "macro_name"), ("str", "!"), ("str", "("), ("opt", target_rule(g) or "target_arg"), ("opt", "kvp_args"), ("rule", "string_literal")]
    ctx.check(d == want, prefix, "G14|order", "G14: a statement is macro_name `!` `(` target? key-values? literal (%s)" % d, W)
    lm = [(p["k"], p.get("v")) for p in flatten(g.rules["log_macro"]["expr"], "seq")]
    ctx.check(lm[:1] == [("ident", "macro_name")] and ("ident", "macro_args") in lm, prefix, "G14|log_macro", "G14: log_macro holds the macro_name and macro_args pairs (%s)" % lm, W)


def g15_kvp_args(ctx, g, prefix):
    if not need(ctx, g, prefix, ["kvp_args", "kvp_key"]):
        return
    parts = g.seq_of("kvp_args")
    ok = len(parts) == 2 and parts[0]["k"] == "rep1" and parts[1]["k"] == "str" and parts[1]["v"] == ";"
    inner_ok = False
    if ok:
        inner = flatten(parts[0]["e"], "seq")
        kinds = []
        for p in inner:
            if p["k"] == "ident":
                kinds.append(p["v"])
            elif p["k"] == "opt":
                kinds.append("opt")
            elif p["k"] == "repn" and p["min"] == 0:
                kinds.append("opt")
            else:
                kinds.append(p["k"])
        inner_ok = kinds[:1] == ["kvp_key"] and all(k == "opt" for k in kinds[1:]) and len(kinds) == 4
        # last optional is the comma
        last = inner[-1]
        inner_ok = inner_ok and last["k"] == "opt" and last["e"]["k"] == "str" and last["e"]["v"] == ","
    ctx.check(ok and inner_ok, prefix, "G15|kvp-shape", "G15: kvp_args = (key modifier? (`=` value)? `,`?)+ `;`", W)
    # a key is an identifier or (log >= 0.4.21) a string literal: a string key taken for the message gets the token
    kalts = [(a_["k"], a_.get("v")) for a_ in g.choices_of(g.expr("kvp_key"))]
    ctx.check(("ident", "string_literal") in kalts and any(k == "ident" and v != "string_literal" for k, v in kalts), prefix, "G15|key-forms",
              "G15: a key is an identifier or a string literal (`\"my key\" = 1; \"msg\"`): %s" % kalts, W)
    # ... a Rust identifier: it may start with XID_START or `_` (`_id = _id`) and goes on with XID_CONTINUE
    kfirst = g.first(g.inline(g.expr("kvp_key")))
    for a_ in g.choices_of(g.expr("kvp_key")):
        if a_["k"] == "ident" and a_["v"] in g.rules and a_["v"] != "string_literal":
            kfirst |= g.first(g.inline(g.expr(a_["v"])))
    kid = set()
    for a_ in g.choices_of(g.expr("kvp_key")):
        if a_["k"] == "ident" and a_["v"] in g.rules:
            kid |= g.idents(g.inline(g.expr(a_["v"])))
    ctx.check(("class", "XID_START") in kfirst and ("chr", "_") in kfirst and "XID_CONTINUE" in kid, prefix, "G15|key-identifier",
              "G15: an identifier key starts with XID_START or `_` and continues with XID_CONTINUE (first: %s)" % sorted(str(x) for x in kfirst), W)


def scan_alignment(ctx, g, prefix):
    """file = SOI ~ (log_macro | ANY)* ~ EOI: every position is tried as a statement start"""
    if not need(ctx, g, prefix, ["file"]):
        return
    parts = g.seq_of("file")
    ok = len(parts) == 3 and parts[0] == {"k": "ident", "v": "SOI"} and parts[2] == {"k": "ident", "v": "EOI"} and parts[1]["k"] == "rep"
    ctx.check(ok, prefix, "file-shape", "file = SOI (…)* EOI", W)


def _contexts(g, root="file"):
    """rule -> set of atomicities ('A' atomic / 'N' non-atomic) it can be entered with, following pest:
    `@`/`$` rules run atomically and cascade to what they call, `!` rules switch back, `{}` and `_{}` inherit"""
    ctx_of = {}
    st = [(root, "N")]
    while st:
        name, inh = st.pop()
        if name not in g.rules:
            continue
        ty = g.ty(name)
        cur = "A" if ty in ("atomic", "compound_atomic") else "N" if ty == "non_atomic" else inh
        if cur in ctx_of.setdefault(name, set()):
            continue
        ctx_of[name].add(cur)
        for i in g.idents(g.expr(name)):
            if i in g.rules:
                st.append((i, cur))
    return ctx_of


def _until_reps(e, out):
    """collect `(!X ~ ANY)*`-shaped repetitions (consume anything until X)"""
    k = e["k"]
    if k in ("rep", "rep1", "repn"):
        for alt in flatten(e["e"], "choice"):
            parts = flatten(alt, "seq")
            if len(parts) >= 2 and parts[0]["k"] == "neg" and parts[-1]["k"] == "ident" and parts[-1]["v"] == "ANY":
                out.append(parts[0]["e"])
    for key in ("a", "b", "e"):
        if key in e and isinstance(e[key], dict):
            _until_reps(e[key], out)


def g16_strings_atomic(ctx, g, prefix):
    """the body of every string literal reachable from `file` is matched atomically: in a non-atomic
    context pest skips COMMENT between the characters, so `//` or `/*` inside the string would swallow the
    closing quote and the rest of the statement"""
    if not need(ctx, g, prefix, ["file"]):
        return
    cx = _contexts(g)
    bodies = []
    bad = []
    for name, how in sorted(cx.items()):
        reps = []
        _until_reps(g.expr(name), reps)
        for stop in reps:
            if "\"" in g.vocab(stop) and g.vocab(stop) <= {"\"", "\\"}:
                bodies.append(name)
                if "N" in how:
                    bad.append(name)
    # ... and nothing is skipped between a quote and the body: a rule that puts `"` next to a string body must
    # itself run atomically, otherwise `"  x"` starts after the blanks and `"// x"` loses its closing quote
    seam = []
    bset = set(bodies)
    for name, how in sorted(cx.items()):
        if "N" not in how or name in bset:
            continue
        parts = flatten(g.rules[name]["expr"], "seq")
        for a_, b_ in zip(parts, parts[1:]):
            pair = [(x["k"], x.get("v")) for x in (a_, b_)]
            if (pair[0] == ("str", '"') and pair[1][0] == "ident" and pair[1][1] in bset) or (pair[1] == ("str", '"') and pair[0][0] == "ident" and pair[0][1] in bset):
                seam.append(name)
    ctx.check(not seam, prefix, "G16|quote-seam",
              "G16: no implicit white space / comment skipping between a string's quotes and its text (rules joining `\"` and a string body non-atomically: %s)" % (sorted(set(seam)) or "none"), W)
    ctx.check(len(bodies) >= 1, prefix, "G16|string-body-anchor", "G16: string-literal bodies found in rules reachable from `file` (%s)" % sorted(set(bodies)), W)
    ctx.check(not bad, prefix, "G16|strings-atomic",
              "G16: every string-literal body reachable from `file` is matched atomically, so comment openers inside a string are text (non-atomic: %s)"
              % (sorted(set(bad)) or "none"), W)


def g17_string_escapes(ctx, g, prefix):
    """inside a string literal a backslash is consumed together with the character after it (escape by state):
    otherwise `\\"` closes the string early (a target / key-value string with an escaped quote loses the whole
    statement) or — when only the pair `\\"` is special — `"..\\\\"` runs on into the next statement"""
    if not need(ctx, g, prefix, ["string_value"]):
        return
    e = g.inline(g.expr("string_value"))
    ok = False
    shape = "no repetition"
    if e["k"] in ("rep", "rep1"):
        alts = flatten(e["e"], "choice")
        esc = [a for a in alts if [(p["k"], p.get("v")) for p in flatten(a, "seq")] == [("str", "\\"), ("ident", "ANY")]]
        plain = [a for a in alts if len(flatten(a, "seq")) == 2 and flatten(a, "seq")[0]["k"] == "neg" and flatten(a, "seq")[1].get("v") == "ANY"]
        stops = set()
        for a in plain:
            stops |= g.vocab(flatten(a, "seq")[0]["e"])
        first_is_esc = bool(alts) and alts[0] in esc
        ok = len(alts) == 2 and len(esc) == 1 and len(plain) == 1 and first_is_esc and stops == {'"'}
        shape = "%d alternatives, escape first: %s, stops: %s" % (len(alts), first_is_esc, sorted(stops))
    ctx.check(ok, prefix, "G17|string-escape", "G17: string_value = ( `\\` ANY | !`\"` ANY )* — a backslash takes the next character with it (%s)" % shape, W)
    if "string_literal" in g.rules:
        sl = [(p["k"], p.get("v")) for p in g.seq_of("string_literal")]
        ctx.check(sl == [("str", '"'), ("ident", "string_value"), ("str", '"')], prefix, "G17|literal-shape", "G17: string_literal = `\"` string_value `\"` (%s)" % sl, W)


def recognition_premises(ctx, g, prefix):
    """What a property that speaks of "recognised" statements (C01: IDs already carried; C02: IDs ever written)
    borrows from C10: a statement the grammar loses is invisible to the scanning pass and its ID is issued again.
    G12 is taken without its `string alternative required` half (that half is the known finding D15, reported
    under C10 / C11); with a string alternative present, G12b still demands char literals."""
    g1_whitespace(ctx, g, prefix)
    g2_comment(ctx, g, prefix)
    g3_comment_eoi(ctx, g, prefix)
    g4_non_atomic(ctx, g, prefix)
    g5_name_atomic(ctx, g, prefix)
    g7_literal_mandatory(ctx, g, prefix)
    g12_scan_strings(ctx, g, prefix, require_string=False)
    g13_qualified(ctx, g, prefix)
    g14_order(ctx, g, prefix)
    g15_kvp_args(ctx, g, prefix)
    g9_kvp_value(ctx, g, prefix)
    g16_strings_atomic(ctx, g, prefix)
    g17_string_escapes(ctx, g, prefix)
    scan_alignment(ctx, g, prefix)


def literal_text_premises(ctx, g, prefix):
    """The text handed to the token recogniser and the offset used for the insertion are the span of the string
    body: it must start at the literal's first character (no implicit skipping after the quote) and end at the
    closing quote (escapes kept whole)."""
    g16_strings_atomic(ctx, g, prefix)
    g17_string_escapes(ctx, g, prefix)


def g18_message_not_key(ctx, g, prefix):
    """`kvp_args?` is optional: when the key-value list of a statement cannot be parsed (a value nested deeper than
    the grammar follows, an unknown modifier) the parser goes on without it, and a string-literal *key* at the head
    of the list is then the first string after `(`. It must not be taken for the message: the message literal is
    followed by a look-ahead that rejects `=` and `:` (what follows a key)."""
    if not need(ctx, g, prefix, ["macro_args", "kvp_key"]):
        return
    string_keys = ("chr", '"') in g.first(g.expr("kvp_key"))
    _parts, rej = _message_guard(g)
    ok = (not string_keys) or (("chr", "=") in rej and ("chr", ":") in rej)
    ctx.check(ok, prefix, "G18|message-not-key", "G18: a string literal followed by `=` or `:` is a key, never the message (string keys accepted: %s; rejected after the message: %s)" %
              (string_keys, sorted(x[1] for x in rej if x[0] == "chr") or "nothing"), W)
