"""C14 — directives affect exactly the statement they precede.

R1 constants: directive texts `breadlog:ignore` / `breadlog:no-kvp`; comment regex ≡
   `\\/\\/(.+)|\\/\\*(.+)\\*\\/` (automata).
R2 the comment text is lower-cased and trimmed before it is compared, by equality, with the
   directive text.
R3 backward scan: lines of `code[..end]` in reverse, nothing skipped but the statement's own
   line and blank lines; the first non-blank line decides (no path from the comment match back
   to the line iterator: a non-directive comment or a code line ends the scan); `true` only
   from the equality arm.
R4 call sites: in the finder every log_macro pair passes the ignore check (subject = start of
   the macro-name span, the file's whole text, the comment regex) before an entry can be
   pushed, and a positive answer skips the statement; the no-kvp check uses the argument
   span's start and is consulted only together with `structured`.
R5 the slice end used for the scan is a char boundary for every input (no `pos + 1`).
"""
import re
from .. import cfg, rx
from ..common import (call_chain, trace_bool, bool_switch_targets, enum_switch, return_values, single_def,
                      loop_containing)
from ..facts import op_place, op_const, rv_str
from ..prov import Prov

COMMENT_SPEC = r"\/\/(.+)|\/\*(.+)\*\/"
BOOL_FN = r"code_parser::check_for_boolean_directive$"
FIND = r"rust_log_ref_finder::find$"


def const_arg(body, op):
    calls, root = call_chain(body, op)
    if root[0] == "const" and not calls:
        return root[1]
    return None


def closure_is(body, op, cb):
    p = op_place(op)
    d = single_def(body, p["l"]) if p else None
    return bool(d and d[1] == "assign" and d[2]["rv"]["k"] == "agg" and d[2]["rv"].get("def") == cb.id)


def _upvar_nm(body, place):
    fs2 = [e["f"] for e in place["p"] if isinstance(e, dict) and "f" in e]
    for u in body.j.get("upvars", []):
        fs = [e["f"] for e in u["place"]["p"] if isinstance(e, dict) and "f" in e]
        if fs and fs2 and fs[0] == fs2[0]:
            return u["name"]
    return fs2[0] if fs2 else None


def pure_local(body, op, depth=0):
    """root local behind copies / refs (no calls)"""
    p = op_place(op)
    if p is None:
        return None
    d = single_def(body, p["l"])
    if d is None or d[1] != "assign" or depth > 8:
        return p["l"]
    rv = d[2]["rv"]
    if rv["k"] == "use" and op_place(rv["op"]) is not None and not op_place(rv["op"])["p"]:
        return pure_local(body, rv["op"], depth + 1)
    if rv["k"] == "ref" and not rv["place"]["p"]:
        return pure_local(body, {"copy": rv["place"]}, depth + 1)
    if rv["k"] == "ref" and rv["place"]["p"] == ["*"]:
        # `&*r`: a reborrow of the reference r
        return pure_local(body, {"copy": {"l": rv["place"]["l"], "p": []}}, depth + 1)
    if rv["k"] == "use" and op_place(rv["op"]) is not None and op_place(rv["op"])["p"] == ["*"] and body.local_ty(p["l"]).startswith("&"):
        return pure_local(body, {"copy": {"l": op_place(rv["op"])["l"], "p": []}}, depth + 1)
    return p["l"]


def rule_compared(body, pair_local):
    """Rule:: variants that `pair.as_rule()` is compared with (==/!=) for this pair local"""
    out = set()
    for a in body.calls_to(r"Pair::<.*>::as_rule$"):
        if pure_local(body, a.args[0]) != pair_local:
            continue
        res = a.dst["l"]
        for c in body.calls:
            if not re.search(r"Rule as std::cmp::PartialEq>::(eq|ne)$", c.func.get("full", "")):
                continue
            locs = [pure_local(body, x) for x in c.args[:2]]
            if res in locs:
                for x in c.args[:2]:
                    l = pure_local(body, x)
                    d = single_def(body, l) if l is not None else None
                    if d and d[1] == "assign" and d[2]["rv"]["k"] == "agg" and d[2]["rv"].get("adt", "").endswith("rust_parser::Rule"):
                        out.add(d[2]["rv"]["variant"])
    return out


def run(ctx):
    facts = ctx.bin
    from .finder import rule_statement_local_state
    rule_statement_local_state(ctx, facts, "C14-R3")
    # ---- R1 constants ---------------------------------------------------------------
    for fn, text in (("check_for_ignore_directive", "breadlog:ignore"), ("check_for_no_kvp_directive", "breadlog:no-kvp")):
        b = facts.one(r"code_parser::%s$" % fn)
        if not ctx.check(b is not None, "C14-R1", "anchor|" + fn, "%s found" % fn, ""):
            continue
        cs = b.calls_to(BOOL_FN)
        if not ctx.check(len(cs) == 1, "C14-R1", "delegate|" + fn, "%s delegates to the shared scan" % fn, b.where()):
            continue
        c = cs[0]
        k = const_arg(b, c.args[0])
        ctx.check(k is not None and k.get("str") == text, "C14-R1", "text|" + fn,
                  "directive text is %r (found %r)" % (text, k.get("str") if k else None), c.where())
        # pass-through of code / subject / regex
        roots = [call_chain(b, a) for a in c.args[1:4]]
        ok = [r[1] for r in roots] == [("param", 1), ("param", 2), ("param", 3)] and not any(r[0] for r in roots)
        ctx.check(ok, "C14-R1", "args|" + fn, "%s forwards (code, subject position, comment regex) unchanged" % fn, c.where())
        ctx.check(len(return_values(b)) == 0 and c.dst["l"] == 0 and not c.dst["p"], "C14-R1", "result|" + fn, "%s returns the scan's answer as is" % fn, b.where())
    lits = rx.regex_literals(facts, r"rust_log_ref_finder::find::")
    if not lits:
        # the pattern may live in a module-level static (`LazyLock`, `OnceLock`, lazy_static at module scope): every
        # regex of the crate's non-test code other than the reference-extraction one is a candidate, and there must be
        # exactly one
        prod = {b.id for b in facts.non_test_bodies()}
        lits = [(c, l) for (c, l) in rx.regex_literals(facts, r".")
                if c.body.id in prod and not re.search(r"extract_reference", c.body.id) and (l is None or "ref: " not in l)]
    if ctx.check(len(lits) == 1 and lits[0][1] is not None, "C14-R1", "anchor|comment-regex", "comment regex literal found (%s)" % [l for _, l in lits], ""):
        e = rx.equiv("(?s:.)*?(?:%s)" % lits[0][1], "(?s:.)*?(?:%s)" % COMMENT_SPEC)
        e2 = rx.equiv(lits[0][1], COMMENT_SPEC)
        ctx.check(e.get("ok") and e.get("holds"), "C14-R1", "comment-regex-search",
                  "the comment regex finds the same comments wherever they stand on the line (searched, not anchored: %r vs %r%s)" % (
                      lits[0][1], COMMENT_SPEC, "" if e.get("holds") else "; differs on %r" % e.get("witness", e.get("error"))), lits[0][0].where())
        ctx.check(e2.get("ok") and e2.get("holds"), "C14-R1", "comment-regex",
                  "comment regex %r ≡ %r%s" % (lits[0][1], COMMENT_SPEC, "" if e2.get("holds") else " (differs on %r)" % e2.get("witness", e2.get("error"))), lits[0][0].where())
        i = rx.info(lits[0][1])
        ctx.check(i.get("ok") and i.get("explicit_captures") == 2 and not i.get("anchored_start"), "C14-R1", "comment-regex-shape",
                  "comment regex is unanchored with two groups (one per comment style)", lits[0][0].where())
        # a block comment ends at the first `*/`: with a greedy group `/* note */ /* breadlog:ignore */` is one match whose
        # text is ` note */ /* breadlog:ignore ` and the directive is not seen
        blk = [b for b in (i.get("branches") or []) if b.get("prefix") == "/*"]
        lazy = len(blk) == 1 and len(blk[0].get("captures", [])) == 1 and blk[0]["captures"][0].get("greedy") == [False]
        ctx.check(lazy, "C14-R1", "comment-regex-block-lazy", "the block-comment group stops at the first `*/` (non-greedy): %s" %
                  ([c.get("greedy") for b in blk for c in b.get("captures", [])] or "no `/*` alternative"), lits[0][0].where())

    # ---- R2, R3, R5 in the shared scan ----------------------------------------------------
    s = facts.one(BOOL_FN)
    if ctx.check(s is not None, "C14-R2", "anchor|scan", "check_for_boolean_directive found", ""):
        eqs = [c for c in s.calls if c.matches(r"PartialEq.*::eq$|::eq$|::ne$|eq_ignore_ascii_case$")]
        eq_body = s
        decider = None          # the call in `s` whose boolean result stands for the comparison
        if not eqs:
            # `group.is_some_and(|comment| comment.as_str().to_lowercase().trim() == directive)`
            for nb in facts.nested(s):
                ne_ = [c for c in nb.calls if c.matches(r"PartialEq.*::eq$|::eq$|::ne$|eq_ignore_ascii_case$")]
                if ne_ and nb.kind == "closure":
                    users = [c for c in s.calls if c.matches(r"Option::<.*>::is_some_and$|Option::<.*>::map_or$|Option::<.*>::is_none_or$")
                             and any(closure_is(s, a, nb) for a in c.args)]
                    if len(users) == 1 and users[0].matches(r"is_some_and$"):
                        eqs, eq_body, decider = ne_, nb, users[0]
        ctx.check(len(eqs) == 1 and not eqs[0].matches(r"::ne$"), "C14-R2", "one-eq", "one equality comparison decides the directive (%s)" % [c.name for c in eqs], s.where())
        for c in eqs:
            sides = [call_chain(eq_body, a) for a in c.args[:2]]
            if eq_body is not s:
                # resolve the captured directive text and the closure parameter
                from ..interproc import expand
                sides2 = []
                for (calls_, root_) in sides:
                    if root_[0] == "upvar":
                        ex = expand(facts, eq_body, {("upvar", _upvar_nm(eq_body, root_[1]))})
                        if ex and all(o[0] == "param" and o[1] == 1 for o in ex):
                            root_ = ("param", 1)
                        elif ex and all(o[0] == "const" for o in ex):
                            root_ = ("param", 1)
                    sides2.append((calls_, root_))
                sides = sides2
            names = [[x.name.split("::")[-1] for x in calls] for calls, root in sides]
            roots = [root for calls, root in sides]
            dir_side = [i for i, r in enumerate(roots) if r == ("param", 1) and not names[i]]
            txt_side = [i for i in range(2) if i not in dir_side]
            ok_dir = len(dir_side) == 1
            ok_txt = False
            if ok_dir and txt_side:
                n = names[txt_side[0]]
                lowered = any(x in ("to_lowercase", "to_ascii_lowercase") for x in n) or c.matches(r"eq_ignore_ascii_case$")
                trimmed = "trim" in n
                from_match = "as_str" in n
                forbidden = [x for x in n if x in ("trim_start_matches", "trim_end_matches", "trim_matches", "replace", "split", "strip_prefix", "strip_suffix", "get", "index")]
                ok_txt = lowered and trimmed and from_match and not forbidden
                ctx.check(ok_txt, "C14-R2", "normalise", "the comment text is as_str() → lower-cased → trimmed before comparison (chain: %s)" % " ← ".join(n), c.where())
            ctx.check(ok_dir, "C14-R2", "directive-side", "the other side is the directive text parameter, unmodified", c.where())
        for c in s.calls:
            if c.matches(r"::(starts_with|ends_with|contains|find|matches)$") and "str" in c.full:
                ctx.bad("C14-R2", "substring|%s" % c.name.split("::")[-1], "substring test `%s` in the directive scan (directive must be the whole comment text)" % c.name, c.where())
        # R3
        lines = s.calls_to(r"str>::lines$|::lines$")
        revs = s.calls_to(r"Iterator>::rev$|::rev$")
        nexts = [c for c in s.calls_to(r"Iterator>::next$") if "Lines" in c.full]
        caps = s.calls_to(r"^regex::Regex::(captures|captures_iter|find|is_match)$")
        empties = s.calls_to(r"str>::is_empty$|::is_empty$")
        ok = len(lines) == 1 and len(revs) == 1 and len(nexts) == 1 and len(caps) == 1 and caps[0].matches(r"::captures(_iter)?$") and len(empties) >= 1
        if ctx.check(ok, "C14-R3", "anchor|scan-shape", "scan = code[..end].lines().rev(), is_empty(), regex.captures() / captures_iter() (%d/%d/%d/%d/%d)" % (
                len(lines), len(revs), len(nexts), len(caps), len(empties)), s.where()):
            nx, cp = nexts[0], caps[0]
            chain, root = call_chain(s, nx.args[0])
            names = [x.name.split("::")[-1] for x in chain]
            core = [n for n in names if n not in ("into_iter",)]
            skip1 = False
            trim_map = False
            # adapters that keep the sequence of lines: `.skip(1)` (the statement's own line) and `.map(str::trim)`
            for ad in [c for c in chain if c.name.split("::")[-1] in ("skip", "map")]:
                nm = ad.name.split("::")[-1]
                if nm == "skip" and (op_const(ad.args[1]) or {}).get("int") == 1 and not skip1:
                    skip1 = True
                    core.remove("skip")
                elif nm == "map" and len(ad.args) > 1:
                    k = op_const(ad.args[1])
                    fn = (k or {}).get("fn", "") if k else ""
                    cbm = None
                    if not fn:
                        pm = op_place(ad.args[1])
                        dm = single_def(s, pm["l"]) if pm else None
                        cbm = facts.body(dm[2]["rv"].get("def")) if dm and dm[1] == "assign" and dm[2]["rv"]["k"] == "agg" else None
                    if re.search(r"str>?::trim$|::trim$", fn) or (cbm is not None and [x.name.split("::")[-1] for x in cbm.calls] == ["trim"]):
                        trim_map = True
                        core.remove("map")
            ctx.check(core == ["rev", "lines", "index"] and root == ("param", 2), "C14-R3", "iter-chain",
                      "the iterator is exactly code[..].lines().rev() [optionally .skip(1) for the statement's own line] (chain: %s, root %s)" % (names, root), nx.where())
            loop = loop_containing(s, nx.bb)
            # the regex is applied to the trimmed line
            ch, rt = call_chain(s, cp.args[1])
            ctx.check([x.name.split("::")[-1] for x in ch][:1] == ["trim"] or trim_map, "C14-R3", "captures-subject", "the comment regex is applied to the trimmed line", cp.where())
            ch0, rt0 = call_chain(s, cp.args[0])
            ctx.check(rt0 == ("param", 4) and not ch0, "C14-R3", "captures-regex", "the regex used is the caller's comment regex", cp.where())
            # nearest non-blank line decides: once captures() ran, the line iterator is never advanced again
            back = cfg.path(s, cp.target, [nx.bb]) if cp.target is not None else None
            ctx.check(back is None, "C14-R3", "nearest-line-only", "after the first non-blank line was examined the scan never moves to an earlier line", cp.where(),
                      {"path_back_lines": [s.blocks[b]["term"].get("line") for b in (back or [])][:30]})
            # blank lines and the first line continue
            for e in empties:
                tsw = None
                for bb in sorted(s.reachable_blocks()):
                    t = s.term(bb)
                    if t["k"] == "switch":
                        k, pl, neg = trace_bool(s, t["discr"])
                        if k == "call" and pl.bb == e.bb:
                            tt, ft = bool_switch_targets(s, bb)
                            if neg:
                                tt, ft = ft, tt
                            tsw = (bb, tt, ft)
                if e.bb in loop and tsw:
                    cont = cfg.path(s, tsw[1], [nx.bb], avoid=[cp.bb])
                    ctx.check(cont is not None, "C14-R3", "blank-continues", "a blank line continues with the previous line", s.where(tsw[0]))
                    ctx.check(cp.bb in cfg.reach(s, [tsw[2]], avoid=[nx.bb]), "C14-R3", "nonblank-examined", "a non-blank line is examined", s.where(tsw[0]))
            # the statement's own line is skipped exactly once: a bool flag initialised true, cleared in the loop
            flags = [l for l in range(len(s.locals)) if s.local_ty(l) == "bool" and s.local_name(l)]
            skip_ok = False
            for l in flags:
                ds = s.defs.get(l, [])
                vals = sorted(op_const(d[2]["rv"]["op"]).get("int") for d in ds if d[1] == "assign" and d[2]["rv"]["k"] == "use" and op_const(d[2]["rv"]["op"]) is not None)
                if vals == [0, 1] and len(ds) == 2:
                    init = [d for d in ds if op_const(d[2]["rv"]["op"]).get("int") == 1][0]
                    clr = [d for d in ds if op_const(d[2]["rv"]["op"]).get("int") == 0][0]
                    if init[0] not in loop and clr[0] in loop:
                        skip_ok = True
            ctx.check(skip_ok != skip1, "C14-R3", "own-line-skip", "the statement's own line (first in reverse order) is skipped exactly once (first-iteration flag: %s, .skip(1): %s)" % (skip_ok, skip1), s.where())
            # returns
            trues = [(bb, st) for (bb, st) in return_values(s) if st["rv"]["k"] == "use" and (op_const(st["rv"]["op"]) or {}).get("int") == 1]
            falses = [(bb, st) for (bb, st) in return_values(s) if st["rv"]["k"] == "use" and (op_const(st["rv"]["op"]) or {}).get("int") == 0]
            ctx.check(len(trues) == 1 and len(falses) >= 1 and len(trues) + len(falses) == len(return_values(s)), "C14-R3", "returns", "returns are the literals true (once) / false", s.where())
            for (bb, st) in trues:
                for c in ([decider] if decider is not None else eqs):
                    for sb in sorted(s.reachable_blocks()):
                        t = s.term(sb)
                        if t["k"] == "switch":
                            k, pl, neg = trace_bool(s, t["discr"])
                            if k == "call" and pl.bb == c.bb:
                                tt, ft = bool_switch_targets(s, sb)
                                if neg:
                                    tt, ft = ft, tt
                                dom = cfg.dominators(s)
                                ctx.check(tt in dom.get(bb, ()), "C14-R3", "true-only-on-eq", "`true` is returned only when the comparison succeeded", s.where(bb))
        # R5 slice end
        idx = [c for c in s.calls_to(r"::index$") if "RangeTo<usize>" in c.full or "RangeToInclusive" in c.full]
        ctx.check(len(idx) == 1 and "RangeToInclusive" not in idx[0].full, "C14-R5", "anchor|slice", "one `code[..end]` slice bounds the scan (%d)" % len(idx), s.where())
        prov = Prov(s)
        for c in idx:
            rng = single_def(s, op_place(c.args[1])["l"])
            if not (rng and rng[1] == "assign" and rng[2]["rv"]["k"] == "agg"):
                ctx.bad("C14-R5", "slice-shape", "slice bound is not a literal range", c.where())
                continue
            end = rng[2]["rv"]["ops"][0]
            org = prov.origins_op(end)
            bins = [o for o in org if o[0] == "bin"]
            good = True
            why = []
            from ..prov import stmt_of
            for o in bins:
                st = stmt_of(o[2])
                rv = st["rv"]
                sides = [prov.origins_op(rv["a"]), prov.origins_op(rv["b"])]
                for sd in sides:
                    for x in sd:
                        if x[0] == "const" and dict(x[1]).get("int") not in (0, None):
                            good = False
                            why.append("adds the constant %s to a byte offset" % dict(x[1]).get("int"))
            from .c17 import describe
            form = describe(s, end)
            pe = op_place(end)
            if pe is not None and not pe["p"]:
                d0 = single_def(s, pe["l"])
                # look through one named variable / move chain to the defining expression
                hops = 0
                while d0 is not None and d0[1] == "assign" and d0[2]["rv"]["k"] == "use" and op_place(d0[2]["rv"]["op"]) is not None and hops < 4:
                    q = op_place(d0[2]["rv"]["op"])
                    if q["p"]:
                        dd = single_def(s, q["l"])
                        if dd and dd[1] == "assign" and dd[2]["rv"]["k"] == "bin":
                            rvb = dd[2]["rv"]
                            form = "%s(%s,%s)" % (rvb["op"].replace("WithOverflow", ""), describe(s, rvb["a"]), describe(s, rvb["b"]))
                        break
                    d0 = single_def(s, q["l"])
                    hops += 1
                if d0 is not None and d0[1] == "assign" and d0[2]["rv"]["k"] == "bin":
                    rvb = d0[2]["rv"]
                    form = "%s(%s,%s)" % (rvb["op"].replace("WithOverflow", ""), describe(s, rvb["a"]), describe(s, rvb["b"]))
                elif d0 is not None and d0[1] == "call":
                    form = describe(s, {"copy": {"l": d0[2].dst["l"], "p": []}}) if not s.local_name(d0[2].dst["l"]) else "%s(%s)" % (d0[2].name.split("::")[-1], ",".join(describe(s, a) for a in d0[2].args[:2]))
            uses_len = any(c2.matches(r"char::methods::<impl char>::len_utf8$|::len_utf8$") for b2 in [s] + facts.nested(s) for c2 in b2.calls)
            boundary_api = re.search(r"(ceil_char_boundary|floor_char_boundary)\(", form) is not None
            SUBJ = s.locals[3].get("name") or "subject_pos"   # the scan's third parameter (directive, text, subject position, regex), by role
            affine = re.match(r"^(Add\(%s,.*\)(\.0)?)$" % re.escape(SUBJ), form) is not None and uses_len and "nth(" not in form and "char_indices" not in form
            if not (affine or boundary_api or form == SUBJ):
                good = False
                why.append("end = %s is not `subject_pos + len_utf8(first char)`" % form)
            ctx.check(good, "C14-R5", "char-boundary", "the slice end is the byte offset just after the statement's first character (%s)" % ("; ".join(why) or form), c.where())

    # ---- R4 call sites ------------------------------------------------------------------
    f = facts.one(FIND)
    if ctx.check(f is not None, "C14-R4", "anchor|find", "the Rust finder found", ""):
        ig = f.calls_to(r"code_parser::check_for_ignore_directive$")
        nk = f.calls_to(r"code_parser::check_for_no_kvp_directive$")
        push = [c for c in f.calls if re.search(r"Vec::<.*LogRefEntry>::push$", c.full)]
        ctx.check(len(ig) == 1 and len(nk) == 1 and len(push) == 1, "C14-R4", "anchor|call-sites", "one ignore check, one no-kvp check, one push (%d/%d/%d)" % (len(ig), len(nk), len(push)), f.where())
        allcalls = [(b, c) for b in facts.non_test_bodies() for c in b.calls_to(r"code_parser::check_for_(ignore|no_kvp)_directive$")]
        ctx.check(len(allcalls) == 2, "C14-R4", "call-site-count", "the directive checks are called only from the finder (%d sites)" % len(allcalls), "")
        if len(ig) == 1 and len(nk) == 1 and len(push) == 1:
            I, N, P = ig[0], nk[0], push[0]
            # outer loop = the loop containing both
            outer_next = [c for c in f.calls_to(r"Iterator>::next$") if c.bb in loop_containing(f, I.bb)]
            loop = loop_containing(f, P.bb)
            heads = [c for c in f.calls_to(r"Iterator>::next$") if c.bb in loop and "Pairs" in c.full]
            # the pair-walk head: the next() whose result feeds the `found` variable; take the one dominating everything
            dom = cfg.dominators(f)
            head = [h for h in heads if h.bb in dom.get(I.bb, ()) and h.bb in dom.get(P.bb, ())]
            head = sorted(head, key=lambda h: len(dom[h.bb]))[:1]
            if ctx.check(len(head) == 1, "C14-R4", "anchor|pair-loop", "the loop over the file's pairs found", f.where()):
                H = head[0]
                p = cfg.path(f, H.target, [P.bb], avoid=[I.bb, H.bb])
                ctx.check(p is None, "C14-R4", "ignore-bypass", "no entry is pushed without the ignore directive having been checked for that statement", I.where(),
                          {"bypass_lines": [f.blocks[b]["term"].get("line") for b in (p or [])][:40]})
                # before its own directive check a statement may only be skipped for its parse shape
                # (not a log_macro pair, no macro_name): any other condition on the way from the pair
                # loop's head to the check could ignore statements the directive does not precede
                region = cfg.reach(f, [H.target], avoid=[I.bb, H.bb])
                odd = []
                for sb in sorted(region):
                    t = f.term(sb)
                    if t["k"] != "switch" or I.bb not in cfg.reach(f, [sb], avoid=[H.bb]):
                        continue
                    arms = f.succ[sb]
                    if all(I.bb in cfg.reach(f, [a], avoid=[H.bb]) for a in arms if f.term(a)["k"] != "unreachable"):
                        continue   # no arm skips the check
                    es = enum_switch(f, sb)
                    ok_shape = False
                    if es is not None and not es[0]["p"]:
                        ty = f.local_ty(es[0]["l"])
                        dd = single_def(f, es[0]["l"])
                        ok_shape = "pest::iterators::Pair" in ty or ty.endswith("rust_parser::Rule") or (dd is not None and dd[1] == "call" and dd[2].matches(r"as_rule$|Iterator>::next$"))
                    else:
                        k, pl, neg = trace_bool(f, t["discr"])
                        ok_shape = k == "call" and bool(re.search(r"Rule as std::cmp::PartialEq>::(eq|ne)$", pl.func.get("full", "")))
                    if not ok_shape:
                        odd.append(f.where(sb))
                ctx.check(not odd, "C14-R4", "skip-before-check", "before its directive check a statement is skipped only for its parse shape (other conditions at: %s)" % (odd or "none"), I.where())
                # true arm -> no push in this iteration
                for bb in sorted(f.reachable_blocks()):
                    t = f.term(bb)
                    if t["k"] == "switch":
                        k, pl, neg = trace_bool(f, t["discr"])
                        if k == "call" and pl.bb == I.bb:
                            tt, ft = bool_switch_targets(f, bb)
                            if neg:
                                tt, ft = ft, tt
                            r = cfg.reach(f, [tt], avoid=[H.bb])
                            ctx.check(P.bb not in r, "C14-R4", "ignore-skips", "an ignore directive skips the statement (no push in that iteration)", f.where(bb))
                            ctx.check(P.bb in cfg.reach(f, [ft], avoid=[H.bb]), "C14-R4", "no-ignore-continues", "without the directive the statement is processed", f.where(bb))
            # arguments
            for (C, what, span_of) in ((I, "ignore", "macro name"), (N, "no-kvp", "macro name")):
                r_code = call_chain(f, C.args[0])
                r_pos = call_chain(f, C.args[1])
                r_rx = call_chain(f, C.args[2])
                ctx.check(r_code == ([], ("param", 1)), "C14-R4", "arg-code|" + what, "%s check scans the file's whole text" % what, C.where())
                pos_names = [x.name.split("::")[-1] for x in r_pos[0]]
                ctx.check(pos_names[:2] == ["start", "as_span"], "C14-R4", "arg-pos|" + what,
                          "%s check's subject is as_span().start() of a pair (chain: %s)" % (what, pos_names[:3]), C.where())
                if pos_names[:2] == ["start", "as_span"]:
                    pair = pure_local(f, r_pos[0][1].args[0])
                    variants = rule_compared(f, pair)
                    want = "macro_name"   # both directives are looked up from the line on which the statement starts
                    ctx.check(variants == {want}, "C14-R4", "arg-pair|" + what,
                              "that pair is the statement's %s (pair checked against Rule::%s)" % (span_of, ",".join(sorted(variants)) or "?"), C.where())
                ctx.check(any(re.search(r"find::|get_or_init$|LazyLock<.*>::deref$|LazyLock::<.*>::force$|Deref>::deref$", x.name + " " + x.full) for x in r_rx[0]) or r_rx[1][0] in ("const", "static"), "C14-R4", "arg-regex|" + what,
                          "%s check uses the finder's comment regex (a static; C14-R1 requires it to be the crate's only regex besides the reference pattern)" % what, C.where())
            # which pair: ignore -> a Pair whose as_rule was compared with Rule::macro_name; no-kvp -> the macro_args span
            # no-kvp consulted only with structured
            N_ok = False
            for bb in sorted(f.reachable_blocks()):
                t = f.term(bb)
                if t["k"] == "switch":
                    k, pl, neg = trace_bool(f, t["discr"])
                    if k == "place" and any(isinstance(e, dict) and e.get("n") == "structured" for e in pl["p"]):
                        tt, ft = bool_switch_targets(f, bb)
                        if neg:
                            tt, ft = ft, tt
                        dom = cfg.dominators(f)
                        N_ok = tt in dom.get(N.bb, ())
                        ctx.check(N_ok, "C14-R4", "nokvp-structured", "the no-kvp directive is only consulted in structured mode", N.where())
            ctx.check(N_ok, "C14-R4", "nokvp-structured-anchor", "a branch on config.rust.structured guards the no-kvp check", N.where())
    # R6: what the scan knows about comments. It is handed raw text and a regex, nothing from the parser, so it
    # cannot tell where a comment starts or ends: (a) a line inside a multi-line block comment is read as if it
    # stood alone; (b) `captures` yields the left-most match only, and the block alternative is greedy.
    s6 = ctx.bin.one(BOOL_FN)
    if s6 is not None:
        ptys = [s6.local_ty(i) or "" for i in range(1, 1 + s6.j.get("arg_count", 4))]
        parser_in = [t for t in ptys if "pest::" in t or "Pair" in t or "Span" in t]
        ctx.check(bool(parser_in), "C14-R6", "line-text-scan|multi-line-comment|%s" % s6.id.split("::")[-1],
                  "the directive scan is told where comments begin and end (found: it receives only %s and applies the comment regex to the raw text of one line, so `// breadlog:ignore` on a line inside a multi-line `/* ... */` is honoured)" % ptys, s6.where())
        caps6 = s6.calls_to(r"^regex::Regex::(captures|captures_iter|find|find_iter|is_match)$")
        every = [c for c in caps6 if c.matches(r"::(captures_iter|find_iter)$")]
        ctx.check(bool(every) or bool(parser_in), "C14-R6", "line-text-scan|leftmost-comment-only|%s" % s6.id.split("::")[-1],
                  "every comment on the directive line is examined (found: %s, which yields the left-most match only; with two comments on the line, `/* note */ // breadlog:ignore`, the directive is not seen)" % ([c.name.split("::")[-1] for c in caps6] or "no regex call"), s6.where())
    ctx.assume("`str::lines()` splits at \\n and strips a trailing \\r; `to_lowercase` handles non-ASCII case (std contracts)")
    ctx.assume("what counts as 'the line on which a statement starts' is the line of the first byte of the macro name (pest span)")
    return {
        "explanation": "Constants (directive texts, comment regex by automata equivalence), the normalisation chain of the compared "
                       "text, the shape of the backward line scan (exact iterator chain, blank-line and own-line skipping, no path "
                       "back to the iterator once a non-blank line was examined), the finder's call sites (must-pass-through of the "
                       "ignore check before any push) and the char-boundary safety of the slice, all on rustc MIR.",
        "trusted": ["rustc MIR", "regex-automata", "std str contracts"],
    }
