"""C05 — check mode's verdict is exact and predicts what edit mode does.

R1 sibling agreement: the four places that decide "this statement lacks a reference" (scan
   map, check map, insert routine's early exit, insert loop) are extracted as decision tables
   over the atoms E = exists()/reference().is_some() and U = usable_reference_position(), and
   must all equal  missing ⇔ ¬E ∧ U  on the feasible valuations (E ⇒ U); any other condition
   on one of them appears as an opaque atom and is a difference.
R2 same place: every CodePosition is co-derived from one span (C13 helper); check reports
   position().line()/column() of the entry whose position().character() edit inserts at; the
   accessors return the fields CodePosition::new stored.
R3 verdict: check fails iff the reduced count > 0; reduce is a plain sum over all elements;
   main maps Err to a non-zero exit.
R4 edit's printed count = Σ created_entries, incremented exactly once per token written.
"""
import re
from .. import cfg, dte
from ..common import (call_chain, trace_bool, bool_switch_targets, enum_switch, return_values, single_def, loop_containing)
from ..facts import op_place, op_const, rv_str
from ..prov import Prov
from . import edit
from .c13 import code_positions, _Quiet
from .c18 import is_err_agg, is_ok_agg

ATOMS = dte.Atoms([
    (r"LogRefEntry::exists$", "E", "bool"),
    (r"LogRefEntry::usable_reference_position$", "U", "bool"),
    (r"LogRefEntry::reference$", "E", "some"),
])
FEASIBLE = [(False, False), (False, True), (True, True)]


def missing_expected(e, u):
    return (not e) and u


def _inc_event(counter_ty):
    def ev(bb, x):
        if isinstance(x, dict) and x.get("k") == "assign":
            rv = x["rv"]
            if rv["k"] == "bin" and rv["op"] in ("AddWithOverflow", "Add") and rv.get("ty") == counter_ty:
                c = op_const(rv["b"])
                if c is not None and c.get("int") == 1:
                    return "count+1"
        return None
    return ev


def table_of_loop(ctx, body, prefix, key, counter_ty, what):
    nexts = [c for c in body.calls_to(r"Iterator>::next$") if "LogRefEntry" in c.full]
    if not ctx.check(len(nexts) == 1, prefix, "anchor|loop|" + key, "%s: loop over the file's entries found (%d)" % (what, len(nexts)), body.where()):
        return None
    nx = nexts[0]
    ch, root = call_chain(body, nx.args[0])
    names = [c.name.split("::")[-1] for c in ch]
    ctx.check(all(n in ("iter", "into_iter", "deref") for n in names) and root[0] == "upvar", prefix, "all-entries|" + key,
              "%s: every entry is visited (chain %s)" % (what, names), nx.where())
    es = enum_switch(body, nx.target)
    if es is None:
        ctx.bad(prefix, "loop-shape|" + key, "%s: unexpected loop shape" % what, nx.where())
        return None
    some_arm = es[1].get(1, es[2])
    rows = dte.extract(body, some_arm, {nx.bb}, ATOMS, events=_inc_event(counter_ty))
    t = {}
    opaque = set()
    for asg, evs, out in rows:
        for k in asg:
            if k not in ("E", "U"):
                opaque.add(k)
        for (e, u) in FEASIBLE:
            if asg.get("E", e) == e and asg.get("U", u) == u:
                t.setdefault((e, u), set()).add("count+1" in evs)
    ctx.check(not opaque, prefix, "extra-condition|" + key, "%s: no condition other than E and U decides the count (%s)" % (what, sorted(opaque) or "none"), body.where())
    return t


def table_of_predicate(ctx, clo, prefix, key, what):
    rows = dte.extract(clo, 0, set(), ATOMS, outcome_local=0)
    pred = dte.eval_predicate(rows)
    t = {}
    opaque = set()
    for items, res in pred.items():
        asg = dict(items)
        for k in asg:
            if k not in ("E", "U"):
                opaque.add(k)
        for (e, u) in FEASIBLE:
            if asg.get("E", e) == e and asg.get("U", u) == u:
                t.setdefault((e, u), set()).add(res)
    ctx.check(not opaque, prefix, "extra-condition|" + key, "%s: no condition other than E and U (%s)" % (what, sorted(opaque) or "none"), clo.where())
    return t


def compare(ctx, prefix, key, what, t, where):
    if t is None:
        return
    for (e, u) in FEASIBLE:
        got = t.get((e, u), set())
        want = {missing_expected(e, u)}
        ctx.check(got == want, prefix, "table|%s|E=%d,U=%d" % (key, e, u),
                  "%s: exists=%s usable=%s ⇒ missing=%s (found %s)" % (what, e, u, missing_expected(e, u), sorted(got, key=str)), where)


def filter_closures(facts, m):
    """closure bodies passed to Iterator::filter in the insert routine: list of (filter Call, closure body)"""
    out = []
    for c in m.calls_to(r"Iterator>::filter$|::filter$|Iterator>::any$|::any$"):
        if len(c.args) < 2:
            continue
        k = op_const(c.args[1])
        if k is not None and k.get("fn") and facts.body(k["fn"]) is not None:
            out.append((c, facts.body(k["fn"])))     # a predicate function used directly: `.any(needs_reference)`
            continue
        p = op_place(c.args[1])
        d = single_def(m, p["l"]) if p else None
        if d and d[1] == "assign" and d[2]["rv"]["k"] == "agg" and d[2]["rv"].get("agg") == "closure":
            b = facts.body(d[2]["rv"]["def"])
            if b is not None:
                out.append((c, b))
    return out


def run(ctx):
    facts = ctx.bin
    P = "C05-R1"
    nm = edit.anchor(ctx, facts, P, edit.NEXT_MAP, "NextReferenceIdProcessor::map (async body)")
    cm = edit.anchor(ctx, facts, P, edit.COUNT_MAP, "CountMissingReferenceIdProcessor::map (async body)")
    im = edit.anchor(ctx, facts, P, edit.INSERT_MAP, "InsertReferencesProcessor::map (async body)")
    if nm is not None:
        compare(ctx, P, "scan-map", "scan pass", table_of_loop(ctx, nm, P, "scan-map", "usize", "scan pass"), nm.where())
    if cm is not None:
        compare(ctx, P, "check-map", "check pass", table_of_loop(ctx, cm, P, "check-map", "u32", "check pass"), cm.where())
    if im is not None:
        fcs = filter_closures(facts, im)
        ctx.check(len(fcs) == 2, P, "anchor|filters", "insert routine: early-exit filter and loop filter found (%d)" % len(fcs), im.where())
        for i, (c, clo) in enumerate(sorted(fcs, key=lambda x: x[0].bb)):
            key = "insert-early" if i == 0 else "insert-loop"
            what = "insert routine (%s)" % ("nothing-to-do test" if i == 0 else "edit loop")
            compare(ctx, P, key, what, table_of_predicate(ctx, clo, P, key, what), clo.where())
            ch, root = call_chain(im, c.args[0])
            names = [x.name.split("::")[-1] for x in ch]
            ctx.check(all(n in ("iter", "into_iter", "deref") for n in names) and root == ("upvar", root[1]) and _upvar_is(im, root[1], "entries"), P, "filter-source|" + key,
                      "%s filters the file's full entry list (chain %s)" % (what, names), c.where())
        # the early exit: count()==0 -> return without creating a scratch file
        cnt = im.calls_to(r"Iterator>::count$|::count$|Iterator>::any$|::any$")
        tmp = im.calls_to(r"AsyncTempFile::new$")
        if ctx.check(len(cnt) == 1 and len(tmp) == 1, P, "anchor|early-exit", "early exit (count) and scratch creation found", im.where()):
            dom = cfg.dominators(im)
            ctx.check(cnt[0].bb in dom.get(tmp[0].bb, ()), P, "early-exit-first", "the nothing-to-do test precedes the creation of the scratch file", cnt[0].where())
            # the loop iterates the filtered iterator (no unfiltered loop over entries writes tokens)
            toks = im.calls_to(r"insertable_reference_string$")
            for tk in toks:
                loop = loop_containing(im, tk.bb)
                nx = [c for c in im.calls_to(r"Iterator>::next$") if c.bb in loop and c.bb in dom.get(tk.bb, ())]
                okf = False
                for n in nx:
                    ch, root = call_chain(im, n.args[0])
                    if any(x.matches(r"::filter$") for x in ch):
                        okf = True
                ctx.check(okf, P, "loop-filtered", "tokens are written only for entries that passed the filter", tk.where())
    from .entry import rule_entry_record
    rule_entry_record(ctx, facts, "C05-R1")
    # ---- R2 same place ---------------------------------------------------------------------
    P = "C05-R2"
    f, pos = code_positions(ctx, facts, P)
    newf = facts.one(r"code_parser::CodePosition::new$")
    if ctx.check(newf is not None, P, "anchor|CodePosition::new", "CodePosition::new found", ""):
        ok = False
        for (bb, st) in return_values(newf):
            rv = st["rv"]
            if rv["k"] == "agg" and rv.get("adt", "").endswith("CodePosition"):
                order = rv["fields"]
                srcs = [op_place(o)["l"] if op_place(o) else None for o in rv["ops"]]
                m = dict(zip(order, srcs))
                ok = (_root_param(newf, m.get("character")), _root_param(newf, m.get("line")), _root_param(newf, m.get("column"))) == (1, 2, 3)
        ctx.check(ok, P, "new-stores", "CodePosition::new(character, line, column) stores its arguments in the fields of the same name", newf.where())
    for acc in ("character", "line", "column"):
        a = facts.one(r"code_parser::CodePosition::%s$" % acc)
        if ctx.check(a is not None, P, "anchor|accessor|" + acc, "accessor %s() found" % acc, ""):
            good = False
            for (bb, st) in return_values(a):
                if st["rv"]["k"] == "use":
                    p = op_place(st["rv"]["op"])
                    good = p is not None and [e.get("n") for e in p["p"] if isinstance(e, dict) and "f" in e] == [acc]
            ctx.check(good, P, "accessor|" + acc, "%s() returns the `%s` field" % (acc, acc), a.where())
    if cm is not None and im is not None:
        for body, accs, what in ((cm, ("line", "column"), "check reports"), (im, ("character",), "edit inserts at")):
            for acc in accs:
                cs = body.calls_to(r"code_parser::CodePosition::%s$" % acc)
                good = len(cs) >= 1
                for c in cs:
                    ch, root = call_chain(body, c.args[0])
                    names = [x.name.split("::")[-1] for x in ch]
                    good = good and names[:1] == ["position"] and ch[0].matches(r"LogRefEntry::position$")
                ctx.check(good, P, "uses|%s|%s" % (body.id[-30:], acc), "%s entry.position().%s()" % (what, acc), cs[0].where() if cs else body.where())
        # the offset is used to slice bytes
        ip = im.calls_to(r"code_parser::CodePosition::character$")
        ctx.check(len(ip) == 1, P, "insert-pos-once", "one insertion offset per entry", im.where())
    rule_same_text(ctx, facts, P)
    # one physical file = one list entry: check counts a location once, edit inserts once
    from .c15 import rule_no_follow
    rule_no_follow(ctx, facts, "C05-R2")
    from .finder import rule_parse_complete
    rule_parse_complete(ctx, facts, "C05-R2")
    from .c01 import rule_file_list_immutable
    rule_file_list_immutable(ctx, facts, "C05-R2")
    # ---- R3 verdict --------------------------------------------------------------------------
    P = "C05-R3"
    ch = edit.anchor(ctx, facts, P, edit.CHECK, "check_references")
    if ch is not None:
        prov = Prov(ch)
        passes = ch.calls_to(r"generate::process_references$")
        from ..common import zero_tests
        gts = zero_tests(ch, prov, lambda o: o[0] == "call" and o[1].matches(r"process_references$"))
        if ctx.check(len(gts) == 1 and len(passes) == 1, P, "verdict-test", "one comparison of the reduced count decides the verdict (%d)" % len(gts), ch.where()):
            bb, pass_arm, fail_arm, form = gts[0]
            ctx.check(fail_arm is not None, P, "verdict-form", "the test is `count > 0` (found %s)" % form, ch.where(bb))
            if fail_arm is not None:
                r1 = [st for (rb, st) in return_values(ch) if rb in cfg.reach_t(ch, fail_arm)]
                r2 = [st for (rb, st) in return_values(ch) if rb in cfg.reach_t(ch, pass_arm)]
                from ..common import only_err_returns
                rs2 = cfg.return_shapes(ch, pass_arm)
                ctx.check((bool(r1) and all(is_err_agg(s) for s in r1)) or only_err_returns(ch, fail_arm), P, "missing-fails", "count > 0 ⇒ Err", ch.where(bb))
                ctx.check((bool(r2) and all(is_ok_agg(s) for s in r2)) or (bool(rs2) and all(sh is not None and sh[0] == 0 for _b, sh in rs2)), P, "none-missing-passes", "count == 0 ⇒ Ok", ch.where(bb))
    cr = edit.anchor(ctx, facts, P, edit.COUNT_REDUCE, "CountMissingReferenceIdProcessor::reduce")
    if cr is not None:
        _sum_rule(ctx, cr, P, "check-reduce", "u32", None)
        for (bb, st) in return_values(cr):
            rv = st["rv"]
            ctx.check(rv["k"] == "agg" and rv.get("variant") == "Some", P, "reduce-some", "reduce returns Some(total)", cr.where(bb))
    if cm is not None:
        # the map's result is the counter
        for (bb, st) in return_values(cm):
            rv = st["rv"]
            if rv["k"] == "agg" and rv.get("variant") == "Some":
                l = op_place(rv["ops"][0])
                ctx.check(l is not None and cm.local_ty(l["l"]) == "u32", P, "map-returns-count", "the check map returns its counter", cm.where(bb))
    from .c18 import rule_interrupted_nonzero
    from .c08 import _Sub
    rule_interrupted_nonzero(_Sub(ctx, "C05-R3", only=("dispatch",)), facts)
    # ---- R4 printed count ----------------------------------------------------------------------
    P = "C05-R4"
    if im is not None:
        prov = Prov(im, stop_at=(r"AsyncTempFile::(path|file)$",))
        incs = []
        for bb in sorted(im.reachable_blocks()):
            for st in im.blocks[bb]["stmts"]:
                if st["k"] == "assign" and st["rv"]["k"] == "bin" and st["rv"]["op"] in ("AddWithOverflow", "Add") and st["rv"].get("ty") in ("usize", "u64"):
                    c = op_const(st["rv"]["b"])
                    a = op_place(st["rv"]["a"])
                    if c is not None and c.get("int") == 1 and a and im.local_name(a["l"]):
                        incs.append((bb, a["l"]))
        ctx.check(len(incs) == 1, P, "one-increment", "one `created += 1` site in the insert routine (%d)" % len(incs), im.where())
        if len(incs) == 1:
            ibb, counter = incs[0]
            toks = [c for (role, c) in edit.storage_ops(facts, im) if role == "scratch-write" and _writes_token(im, prov, c)]
            if ctx.check(len(toks) == 1, P, "anchor|token-write", "the token write found (%d)" % len(toks), im.where()):
                T = toks[0]
                sw = edit.examining_switches(im, prov, T)
                loop = loop_containing(im, T.bb)
                nxs = [c for c in im.calls_to(r"Iterator>::next$") if c.bb in loop]
                for (sb, err_arm, ok_arm) in sw:
                    p = cfg.path(im, ok_arm, [c.bb for c in nxs] + im.returns(), avoid=[ibb])
                    ctx.check(p is None, P, "inc-after-token", "every successful token write is counted before the next entry / the end", im.where(sb))
                dom = cfg.dominators(im)
                ctx.check(T.bb in dom.get(ibb, ()), P, "inc-only-after-token", "the count is incremented only after a token was written", im.where(ibb))
            # success result carries the counter
            for r in edit.failure_returns(im):
                if r["kind"] == "result" and edit.const_bool(r["failure"]) is False:
                    p = op_place(r["count"])
                    c0 = op_const(r["count"])
                    isz = c0 is not None and c0.get("int") == 0
                    isc = p is not None and (p["l"] == counter or _copy_of(im, p["l"], counter))
                    early = isz  # the nothing-to-do return
                    ctx.check(isc or early, P, "success-count|%s" % ("zero" if isz else "counter"), "a success result reports the number of tokens written (%s)" % ("0: nothing to do" if isz else "created_entries"), im.where(r["bb"]))
    ir = facts.one(edit.INSERT_REDUCE)
    if ir is not None:
        _sum_rule(ctx, ir, P, "insert-reduce", ("usize", "u64"), "num_inserted_references")
    g = facts.one(edit.GENERATE)
    if g is not None:
        # the number printed is the reduced num_inserted_references
        found = False
        for bb in sorted(g.reachable_blocks()):
            for st in g.blocks[bb]["stmts"]:
                if st["k"] == "assign" and st["rv"]["k"] == "ref":
                    names = [e.get("n") for e in st["rv"]["place"]["p"] if isinstance(e, dict) and "f" in e]
                    if names == ["num_inserted_references"]:
                        found = True
        ctx.check(found, P, "printed-count", "the driver prints the reduced num_inserted_references", g.where())
    ctx.assume("pest's Position::line_col counts 1-based lines and columns in characters, CRLF as one break (read in pest-2.7.12/src/position.rs; not re-derived)")
    ctx.assume("feasibility: exists() ⇒ usable_reference_position() (from usable's own table, C13-R2)")
    return {
        "explanation": "Sibling decision tables (RK4) of the four 'missing' predicates extracted from rustc MIR by path enumeration over "
                       "boolean atoms and compared on the feasible valuations; co-derivation of offset/line/column from one pest span "
                       "at every CodePosition site; accessor/constructor field agreement; verdict comparison form and arms; the "
                       "sum-fold shape of the reduces; must-pass-through of the created-counter increment after each token write.",
        "trusted": ["rustc MIR", "pest line_col contract"],
    }


def _upvar_is(body, place, name):
    for u in body.j.get("upvars", []):
        if u["name"] == name:
            fs = [e["f"] for e in u["place"]["p"] if isinstance(e, dict) and "f" in e]
            fs2 = [e["f"] for e in place["p"] if isinstance(e, dict) and "f" in e]
            if fs and fs2 and fs[0] == fs2[0]:
                return True
    return False


def _root_param(body, l, depth=0):
    if l is None:
        return None
    if 1 <= l <= body.arg_count and not body.defs.get(l):
        return l
    d = single_def(body, l)
    if d and d[1] == "assign" and d[2]["rv"]["k"] == "use" and depth < 5:
        p = op_place(d[2]["rv"]["op"])
        if p and not p["p"]:
            return _root_param(body, p["l"], depth + 1)
    return None


def _copy_of(body, l, target, depth=0):
    d = single_def(body, l)
    if d and d[1] == "assign" and d[2]["rv"]["k"] == "use" and depth < 5:
        p = op_place(d[2]["rv"]["op"])
        if p and not p["p"]:
            return p["l"] == target or _copy_of(body, p["l"], target, depth + 1)
    return False


def _writes_token(body, prov, call):
    org = prov.origins_op(call.args[1]) if len(call.args) > 1 else set()
    return any(o[0] == "call" and o[1].matches(r"insertable_reference_string$") for o in org)


def _sum_rule(ctx, r, prefix, key, ty, field):
    """reduce: acc = 0; for x in all: acc += x(.field)"""
    prov = Prov(r)
    adds = []
    for bb in sorted(r.reachable_blocks()):
        for st in r.blocks[bb]["stmts"]:
            if st["k"] == "assign" and st["rv"]["k"] == "bin" and st["rv"]["op"] in ("AddWithOverflow", "Add") and st["rv"].get("ty") in (ty if isinstance(ty, tuple) else (ty,)):
                adds.append((bb, st))
    ok = len(adds) == 1
    if not adds:
        # iterator form: the returned value (.field of the result) is iter().fold(0, |t, x| t + x.f) / sum()
        from ..common import iterator_fold
        got = None
        for (bb, st) in return_values(r):
            rv = st["rv"]
            if rv["k"] == "agg" and rv.get("variant") == "Some":
                inner = rv["ops"][0]
                d = single_def(r, op_place(inner)["l"]) if op_place(inner) else None
                cand = [inner]
                if d and d[1] == "assign" and d[2]["rv"]["k"] == "agg":
                    cand = list(d[2]["rv"]["ops"])
                for c in cand:
                    itf = iterator_fold(r.facts, r, c)
                    if itf and itf["kind"] == "sum":
                        got = itf
        ok = got is not None and got["root"] == ("param", 1) and got["init"] == 0 and (got["field"] == field or (field is None and got["field"] is None))
        ctx.check(ok, prefix, "sum|" + key, "%s is a plain sum over every map result, starting at 0 (iterator form)" % key, r.where())
        return
    if ok:
        bb, st = adds[0]
        rv = st["rv"]
        cyc = cfg.cyclic_blocks(r)
        o = prov.origins_op(rv["b"])
        from .c08 import _iter_chain_ok, _loads_field
        elem = o == {("param", 1)} and _iter_chain_ok(r, prov, rv["b"]) and (field is None or _loads_field(r, rv["b"], field))
        acc = op_place(rv["a"])
        inits = [op_const(d[2]["rv"]["op"]).get("int") for d in r.defs.get(acc["l"], []) if d[1] == "assign" and d[2]["rv"]["k"] == "use" and op_const(d[2]["rv"]["op"]) is not None] if acc else []
        ok = elem and bb in cyc and inits == [0]
    ctx.check(ok, prefix, "sum|" + key, "%s is a plain sum over every map result, starting at 0" % key, r.where())


def rule_same_text(ctx, facts, prefix):
    """byte offsets and line/columns are relative to the very text that edit mode slices: the
    string given to map is the one given to find_references, which hands it unmodified to the
    finder, which hands it unmodified to the pest parser."""
    from .c12 import pure_chain_root
    pr = facts.one(edit.PROCESS)
    # the fuzzing facade (lib target, thorough tier) contains the parser only: the driver half of the chain is
    # decided on the bin target
    has_codegen = any(b.id.startswith("codegen::") for b in facts.bodies)
    if has_codegen and ctx.check(pr is not None, prefix, "anchor|process_references", "process_references async block found", ""):
        fr = pr.calls_to(r"code_parser::find_references$")
        mp = pr.calls_to(r"ReferenceProcessor(<.*>)?>?::map")
        if ctx.check(len(fr) == 1 and len(mp) == 1, prefix, "anchor|find-map", "find_references and map calls found", pr.where()):
            a = _string_local(pr, fr[0].args[1])
            b = _string_local(pr, mp[0].args[1])
            ctx.check(a is not None and a == b, prefix, "text-same-string", "the text that is parsed is the text that map slices (same String)", fr[0].where())
            # entries given to map are the parse result of that text
            prov = Prov(pr)
            o = prov.origins_op(mp[0].args[3])
            ctx.check(bool(o) and all(x[0] == "call" and x[1].bb == fr[0].bb for x in o), prefix, "entries-of-text", "the entries given to map are the ones found in that text", mp[0].where())
    fr_b = facts.one(r"code_parser::find_references$")
    if ctx.check(fr_b is not None, prefix, "anchor|find_references", "find_references found", ""):
        cs = fr_b.calls_to(r"rust_log_ref_finder::find$")
        ok = len(cs) >= 1 and all(pure_chain_root(fr_b, c.args[0]) == ("param", 2) for c in cs)
        ctx.check(ok, prefix, "text-unmodified|find_references", "find_references passes its `code` argument to the finder unmodified (no trimming, BOM stripping, normalisation)", fr_b.where())
    f = facts.one(r"rust_log_ref_finder::find$")
    if ctx.check(f is not None, prefix, "anchor|find", "the Rust finder found", ""):
        pc = [c for c in f.calls if c.matches(r"::parse$") and ("RustParser" in c.func.get("full", "") or "pest::Parser" in (c.declared or ""))]
        ok = len(pc) == 1 and pure_chain_root(f, pc[0].args[1]) == ("param", 1)
        ctx.check(ok, prefix, "text-unmodified|find", "the finder parses exactly its `code` argument (span offsets are offsets into it)", pc[0].where() if pc else f.where())
        if pc:
            k = single_def(f, op_place(pc[0].args[0])["l"]) if op_place(pc[0].args[0]) else None
            rule_ok = k is not None and k[1] == "assign" and k[2]["rv"]["k"] == "agg" and k[2]["rv"].get("variant") == "file"
            ctx.check(rule_ok, prefix, "parse-rule", "the whole-file rule `file` is parsed (SOI … EOI)", pc[0].where())


def _string_local(body, op, depth=0):
    p = op_place(op)
    if p is None or depth > 8:
        return None
    d = single_def(body, p["l"])
    if d is None:
        return p["l"]
    if d[1] == "call":
        if d[2].matches(r"String as std::ops::Deref>::deref$|String::as_str$|::deref$|::as_str$") and d[2].args:
            return _string_local(body, d[2].args[0], depth + 1)
        return p["l"]
    rv = d[2]["rv"]
    if rv["k"] == "ref" and not [e for e in rv["place"]["p"] if e != "*"]:
        return _string_local(body, {"copy": {"l": rv["place"]["l"], "p": []}}, depth + 1)
    if rv["k"] == "use" and op_place(rv["op"]) and not op_place(rv["op"])["p"]:
        return _string_local(body, rv["op"], depth + 1)
    return p["l"]
