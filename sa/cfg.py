import re
"""CFG utilities on a Body: reachability with cuts, dominators, post-dominators, SCCs, loops.

Edges are the normal (non-unwind) successors; `yield` follows the resume edge only
(a coroutine dropped while suspended, and panics, are outside every property here except
where a rule says otherwise)."""


def reach(body, starts, avoid=(), succ=None):
    """Blocks reachable from `starts` (inclusive) without entering a block in `avoid`."""
    succ = succ or body.succ
    avoid = set(avoid)
    seen = set()
    st = [s for s in starts if s not in avoid]
    seen.update(st)
    while st:
        b = st.pop()
        for s in succ[b]:
            if s not in seen and s not in avoid:
                seen.add(s)
                st.append(s)
    return seen


def reach_after(body, starts, avoid=()):
    """Blocks reachable from the *successors* of `starts` (exclusive of the starts unless looped)."""
    nxt = []
    for s in starts:
        nxt.extend(body.succ[s])
    return reach(body, nxt, avoid)


def path(body, start, goals, avoid=()):
    """A shortest block path start -> any goal avoiding `avoid` (None if there is none)."""
    goals = set(goals)
    avoid = set(avoid)
    if start in avoid:
        return None
    prev = {start: None}
    q = [start]
    i = 0
    while i < len(q):
        b = q[i]
        i += 1
        if b in goals:
            out = []
            while b is not None:
                out.append(b)
                b = prev[b]
            return out[::-1]
        for s in body.succ[b]:
            if s not in prev and s not in avoid:
                prev[s] = b
                q.append(s)
    return None


def dominators(body, entry=0, succ=None, pred=None, nodes=None):
    """Iterative dominator sets (small CFGs). Returns dict block -> set of dominators."""
    succ = succ or body.succ
    if nodes is None:
        nodes = reach(body, [entry], succ=succ)
    nodes = set(nodes)
    if pred is None:
        pred = {n: [] for n in nodes}
        for n in nodes:
            for s in succ[n]:
                if s in nodes:
                    pred[s].append(n)
    dom = {n: set(nodes) for n in nodes}
    dom[entry] = {entry}
    changed = True
    order = sorted(nodes)
    while changed:
        changed = False
        for n in order:
            if n == entry:
                continue
            ps = [dom[p] for p in pred[n] if p in nodes]
            new = set.intersection(*ps) if ps else set()
            new = new | {n}
            if new != dom[n]:
                dom[n] = new
                changed = True
    if entry == 0 and succ is body.succ:
        return _Dom(body, dom)
    return dom


class _DomSet(frozenset):
    """dominators of one block; `a in s` also holds when every *feasible* path (variant-tracked) from the entry
    to the block passes a — the same fact on the graph without the infeasible edges that helper inlining and
    merged Result / Option values introduce"""
    def __new__(cls, items, body, b):
        o = super().__new__(cls, items)
        o._body, _b = body, b
        o._b = b
        return o

    def __contains__(self, a):
        if frozenset.__contains__(self, a):
            return True
        if not isinstance(a, int) or a == self._b:
            return False
        live = self._body.reachable_blocks()
        if a not in live or self._b not in live:
            return False
        cache = self._body.__dict__.setdefault("_fdom", {})
        if a not in cache:
            cache[a] = explore(self._body, 0, avoid=[a])[0]   # everything reachable on feasible paths without passing a
        return self._b not in cache[a]


class _Dom(dict):
    def __init__(self, body, plain):
        super().__init__()
        for b, s in plain.items():
            dict.__setitem__(self, b, _DomSet(s, body, b))

    def get(self, k, default=()):
        return dict.get(self, k, default)


def dominates(dom, a, b):
    return b in dom and a in dom[b]


def post_dominators(body, exits=None):
    """Post-dominators w.r.t. the given exit blocks (default: all `return` blocks), over
    blocks that can reach an exit. Returns dict block -> set of post-dominators."""
    if exits is None:
        exits = body.returns()
    exits = list(exits)
    n = body.nblocks
    rsucc = [[] for _ in range(n + 1)]
    live = body.reachable_blocks()
    for b in live:
        for s in body.succ[b]:
            rsucc[s].append(b)
    VIRT = n
    for e in exits:
        rsucc[VIRT].append(e)
    # nodes that can reach an exit = reachable from VIRT in reverse graph
    seen = {VIRT}
    st = [VIRT]
    while st:
        b = st.pop()
        for s in rsucc[b]:
            if s not in seen:
                seen.add(s)
                st.append(s)
    nodes = seen
    pred = {x: [] for x in nodes}
    for x in nodes:
        for s in rsucc[x]:
            if s in nodes:
                pred[s].append(x)
    dom = {x: set(nodes) for x in nodes}
    dom[VIRT] = {VIRT}
    changed = True
    order = sorted(nodes)
    while changed:
        changed = False
        for x in order:
            if x == VIRT:
                continue
            ps = [dom[p] for p in pred[x]]
            new = (set.intersection(*ps) if ps else set()) | {x}
            if new != dom[x]:
                dom[x] = new
                changed = True
    for x in dom:
        dom[x] = dom[x] - {VIRT}
    dom.pop(VIRT, None)
    return dom


def sccs(body, nodes=None):
    """Tarjan SCCs over the normal CFG restricted to `nodes`. Returns list of sets."""
    if nodes is None:
        nodes = body.reachable_blocks()
    nodes = set(nodes)
    index = {}
    low = {}
    onst = set()
    st = []
    out = []
    counter = [0]

    import sys
    sys.setrecursionlimit(max(10000, sys.getrecursionlimit()))

    def strong(v):
        index[v] = low[v] = counter[0]
        counter[0] += 1
        st.append(v)
        onst.add(v)
        for w in body.succ[v]:
            if w not in nodes:
                continue
            if w not in index:
                strong(w)
                low[v] = min(low[v], low[w])
            elif w in onst:
                low[v] = min(low[v], index[w])
        if low[v] == index[v]:
            comp = set()
            while True:
                w = st.pop()
                onst.discard(w)
                comp.add(w)
                if w == v:
                    break
            out.append(comp)

    for v in sorted(nodes):
        if v not in index:
            strong(v)
    return out


def cyclic_blocks(body):
    """Blocks that lie on some CFG cycle."""
    out = set()
    for c in sccs(body):
        if len(c) > 1:
            out |= c
        else:
            (v,) = tuple(c)
            if v in body.succ[v]:
                out.add(v)
    return out


def await_only_cycles(body):
    """SCCs that are pure `.await` poll loops (contain a yield and no call other than the
    poll plumbing). Returned as a set of blocks; used to ignore them as 'loops'."""
    POLL = ("::poll", "Pin::<", "get_context", "into_future", "new_unchecked", "ResumeTy", "from_output", "branch")
    out = set()
    for c in sccs(body):
        if len(c) < 2:
            continue
        has_yield = any(body.blocks[b]["term"]["k"] == "yield" for b in c)
        if not has_yield:
            continue
        ok = True
        for b in c:
            t = body.blocks[b]["term"]
            if t["k"] == "call":
                f = t["func"]
                nm = f.get("resolved_full") or f.get("full") or ""
                if not any(p in nm for p in POLL):
                    ok = False
        if ok:
            out |= c
    return out


# ---------------------------------------------------------------------------------------
# Variant-tracking exploration: removes the classic infeasible path
#     r = match op() { Ok(_) => other(), Err(e) => Err(e) };  if let Err(e) = r { return }
# by remembering, along a path, which enum variant a local was last *constructed* with and
# following only the matching arm of a later `switch discriminant(local)`.

def _opdesc(op):
    """('place', local, steps) for a move/copy operand whose projections are field / variant-field steps"""
    p = op.get("move") or op.get("copy") if isinstance(op, dict) else None
    if p is None:
        return None
    return _placedesc(p)


def _placedesc(p):
    steps = []
    elems = p["p"]
    i = 0
    while i < len(elems):
        e = elems[i]
        if isinstance(e, dict) and "downcast" in e and i + 1 < len(elems) and isinstance(elems[i + 1], dict) and "f" in elems[i + 1]:
            steps.append(("v", e["downcast"], elems[i + 1]["f"]))
            i += 2
        elif isinstance(e, dict) and "f" in e and "downcast" not in e:
            steps.append(("f", e["f"]))
            i += 1
        else:
            return None   # deref / index: not tracked
    return ("place", p["l"], tuple(steps))


def _mut_borrowed(body):
    """locals whose address is taken mutably (their value can change behind the tracker's back)"""
    c = getattr(body, "_mutb", None)
    if c is None:
        c = set()
        for blk in body.blocks:
            for st in blk["stmts"]:
                if st["k"] == "assign" and st["rv"]["k"] in ("ref", "rawptr") and (st["rv"].get("mut") or st["rv"]["k"] == "rawptr"):
                    pl = st["rv"]["place"]
                    if "*" not in pl["p"]:
                        c.add(pl["l"])
        body._mutb = c
    return c


def _block_effects(body, bb):
    """list of (local, effect) in statement order; effect is None (unknown), ('agg', variant, [opdesc..]),
    ('place', local, steps) (copy of a tracked sub-value), ('branch', local, kind) or ('clobber',) (a
    field was written: the variant stays, the payload shapes are forgotten)"""
    c = body._eff.get(bb) if hasattr(body, "_eff") else None
    if c is not None:
        return c
    if not hasattr(body, "_eff"):
        body._eff = {}
    eff = []
    blk = body.blocks[bb]
    for st in blk["stmts"]:
        if st["k"] == "setdiscr":
            eff.append((st["dst"]["l"], None))
            continue
        dst = st["dst"]
        if dst["p"]:
            if "*" not in dst["p"]:
                eff.append((dst["l"], ("clobber",)))
            continue
        rv = st["rv"]
        if rv["k"] == "agg" and rv.get("agg") == "adt" and "variant_idx" in rv:
            eff.append((dst["l"], ("agg", rv["variant_idx"], [_opdesc(o) for o in rv["ops"]])))
        elif rv["k"] == "agg" and rv.get("agg") == "tuple":
            eff.append((dst["l"], ("agg", 0, [_opdesc(o) for o in rv["ops"]])))
        elif rv["k"] == "use":
            c = rv["op"].get("const") if isinstance(rv["op"], dict) else None
            if c is not None and isinstance(c.get("int"), int) and c.get("ty") == "bool":
                eff.append((dst["l"], ("agg", c["int"], [])))     # a boolean constant: tracked like a variant
            else:
                eff.append((dst["l"], _opdesc(rv["op"])))
        elif rv["k"] == "un" and rv.get("op") == "Not":
            o = _opdesc(rv["a"])
            eff.append((dst["l"], ("not", o[1]) if o is not None and not o[2] else None))
        else:
            eff.append((dst["l"], None))
    t = blk["term"]
    if t["k"] == "call":
        d = t["dst"]
        if not d["p"]:
            f = t["func"]
            nm = f.get("resolved") or f.get("def") or ""
            src = None
            if nm.endswith("::branch") and t["args"]:
                # `?`: Try::branch maps Ok/Some -> Continue(0), Err/None -> Break(1)
                a = t["args"][0]
                p = a.get("move") or a.get("copy")
                if p is not None and not p["p"]:
                    ty = body.locals[p["l"]]["ty"]
                    if ty.startswith(("std::result::Result<", "core::result::Result<")):
                        src = ("branch", p["l"], "result")
                    elif ty.startswith(("std::option::Option<", "core::option::Option<")):
                        src = ("branch", p["l"], "option")
            if src is None and nm.endswith("::from_residual"):
                ty = body.locals[d["l"]]["ty"]
                if ty.startswith(("std::result::Result<", "core::result::Result<")):
                    src = ("agg", 1, [None])     # `?` leaving a Result function: always Err
                elif ty.startswith(("std::option::Option<", "core::option::Option<")):
                    src = ("agg", 0, [])         # ... an Option function: always None
            if src is None and t["args"]:
                # combinators that keep / map the variant of their receiver (payload shapes are forgotten)
                a = t["args"][0]
                p = a.get("move") or a.get("copy")
                if p is not None and not p["p"]:
                    if re.search(r"Result::<.*>::(map_err|map|inspect|inspect_err)$|Option::<.*>::(map|inspect|filter_none_kept)$", nm):
                        src = ("vmap", p["l"], {0: 0, 1: 1})
                    elif re.search(r"Option::<.*>::(ok_or|ok_or_else)$", nm):
                        src = ("vmap", p["l"], {1: 0, 0: 1})
                    elif re.search(r"Result::<.*>::ok$", nm):
                        src = ("vmap", p["l"], {0: 1, 1: 0})
                    elif re.search(r"Result::<.*>::err$", nm):
                        src = ("vmap", p["l"], {0: 0, 1: 1})
                    elif re.search(r"Result::<.*>::and_then$", nm):
                        src = ("vmap", p["l"], {1: 1})
                    elif re.search(r"Option::<.*>::and_then$", nm):
                        src = ("vmap", p["l"], {0: 0})
            eff.append((d["l"], src))
        elif "*" not in d["p"]:
            eff.append((d["l"], ("clobber",)))
    body._eff[bb] = eff
    return eff


def _relevant_locals(body):
    """locals whose shape can influence a `switch discriminant(..)`: the switch subjects and, transitively,
    everything copied / aggregated / `?`-mapped into them. Only these are tracked by explore()."""
    c = getattr(body, "_relv", None)
    if c is not None:
        return c
    rel = {0}
    for bb in range(body.nblocks):
        sw = _switch_subject(body, bb)
        if sw is not None:
            rel.add(sw[0][1])
    changed = True
    effs = [(_block_effects(body, bb)) for bb in range(body.nblocks)]
    while changed:
        changed = False
        for eff in effs:
            for (l, v) in eff:
                if l not in rel or v is None:
                    continue
                srcs = []
                if v[0] == "place":
                    srcs = [v[1]]
                elif v[0] in ("branch", "vmap", "not"):
                    srcs = [v[1]]
                elif v[0] == "agg":
                    srcs = [o[1] for o in v[2] if o is not None]
                for m in srcs:
                    if m not in rel:
                        rel.add(m)
                        changed = True
    body._relv = rel
    return rel


def _shape_at(d, desc):
    """shape of the tracked value described by ('place', local, steps) in state d, or None"""
    if desc is None:
        return None
    sh = d.get(desc[1])
    for stp in desc[2]:
        if sh is None:
            return None
        if stp[0] == "v":
            if sh[0] != stp[1]:
                return None
            k = stp[2]
        else:
            k = stp[1]
        sh = sh[1][k] if k < len(sh[1]) else None
    return sh


def _switch_subject(body, bb):
    """(place descriptor, {value: target}, otherwise) when the block ends in `switch discriminant(place)`"""
    t = body.blocks[bb]["term"]
    if t["k"] != "switch":
        return None
    op = t["discr"]
    p = op.get("move") or op.get("copy")
    if p is None or p["p"]:
        return None
    # the discriminant read is normally in the same block
    for st in reversed(body.blocks[bb]["stmts"]):
        if st["k"] == "assign" and st["dst"]["l"] == p["l"] and not st["dst"]["p"]:
            if st["rv"]["k"] == "discr":
                desc = _placedesc(st["rv"]["place"])
                if desc is not None:
                    return (desc, {v: tg for v, tg in t["arms"]}, t["otherwise"])
                return None
            break
    if body.locals[p["l"]]["ty"] == "bool":
        # `if flag` on a boolean local: decided when the flag's value is known on this path
        return (("place", p["l"], ()), {v: tg for v, tg in t["arms"]}, t["otherwise"])
    return None


def return_shapes(body, start, avoid=(), state=None):
    """[(return block, shape of the returned value or None)] for every return reachable from `start` on a
    feasible path (shape = (variant index, payload shapes) of `_0` when it is known there)"""
    out = []
    explore(body, start, avoid, state=state, collect=out)
    return sorted(set(out), key=lambda x: (x[0], str(x[1])))


def explore(body, start, avoid=(), goals=None, state=None, limit=200000, collect=None):
    """Variant-tracking forward exploration from block `start` (its statements are executed). The state maps
    a local to the shape of the enum / tuple value it holds: (variant index, (payload shapes..)), built from
    aggregates, copied through moves and field / payload projections, and through `?`.
    Returns (reached_blocks, witness_path_to_goal_or_None)."""
    avoid = set(avoid)
    goals = set(goals or ())
    untracked = _mut_borrowed(body)
    if state is None and start != 0:
        # started at the arm of a `match`: on that arm the matched value has the arm's variant
        state = {}
        preds = body.pred[start]
        if len(preds) == 1:
            sw = _switch_subject(body, preds[0])
            if sw is not None and not sw[0][2] and sw[0][1] not in untracked:
                vals = [v for v, tg in sw[1].items() if tg == start]
                if len(vals) == 1 and sw[2] != start:
                    state[sw[0][1]] = (vals[0], ())
    init = tuple(sorted((state or {}).items()))
    seen = set()
    reached = set()
    stack = [(start, init, None)]
    parents = {}
    relevant = _relevant_locals(body)
    n = 0
    while stack:
        bb, st, par = stack.pop()
        if bb in avoid:
            continue
        key = (bb, st)
        if key in seen:
            continue
        seen.add(key)
        parents[key] = par
        reached.add(bb)
        n += 1
        if n > limit:
            # give up tracking: fall back to plain reachability (sound over-approximation)
            return reach(body, [start], avoid), path(body, start, goals, avoid) if goals else None
        if bb in goals:
            out = []
            k = key
            while k is not None:
                out.append(k[0])
                k = parents[k]
            return reached, out[::-1]
        d = dict(st)
        for (l, v) in _block_effects(body, bb):
            if l not in relevant:
                continue
            if v is None or l in untracked:
                d.pop(l, None)
            elif v[0] == "clobber":
                if l in d:
                    d[l] = (d[l][0], ())
            elif v[0] == "branch":
                sv = d.get(v[1])
                if sv is not None:
                    payload = sv[1][0] if sv[1] else None
                    if v[2] == "result":
                        d[l] = (0, (payload,)) if sv[0] == 0 else (1, ((1, (payload,)),))
                    else:
                        d[l] = (0, (payload,)) if sv[0] == 1 else (1, ((0, ()),))
                else:
                    d.pop(l, None)
            elif v[0] == "not":
                sv = d.get(v[1])
                if sv is not None and sv[0] in (0, 1):
                    d[l] = (1 - sv[0], ())
                else:
                    d.pop(l, None)
            elif v[0] == "vmap":
                sv = d.get(v[1])
                if sv is not None and sv[0] in v[2]:
                    d[l] = (v[2][sv[0]], ())
                else:
                    d.pop(l, None)
            elif v[0] == "place":
                sh = _shape_at(d, v)
                if sh is not None:
                    d[l] = sh
                else:
                    d.pop(l, None)
            elif v[0] == "agg":
                d[l] = (v[1], tuple(_shape_at(d, o) for o in v[2]))
        if collect is not None and body.blocks[bb]["term"]["k"] == "return":
            collect.append((bb, d.get(0)))
        succs = body.succ[bb]
        sw = _switch_subject(body, bb)
        if sw is not None:
            sh = _shape_at(d, sw[0])
            if sh is not None:
                succs = [sw[1].get(sh[0], sw[2])]
        nst = tuple(sorted(d.items()))
        for s in succs:
            stack.append((s, nst, key))
    return reached, None


def reach_t(body, start, avoid=()):
    return explore(body, start, avoid)[0]


def path_t(body, start, goals, avoid=()):
    return explore(body, start, avoid, goals)[1]
