"""CFG utilities on a Body: reachability with cuts, dominators, post-dominators, SCCs, loops.

Edges are the normal (non-unwind) successors; `yield` follows the resume edge only
(a coroutine dropped while suspended, and panics, are outside every property here except
where a rule says otherwise)."""


def reach(body, starts, avoid=(), succ=None):
    """Blocks reachable from `starts` (inclusive) without entering a block in `avoid`."""
    succ = succ or body.succ
    avoid = set(avoid)
    seen = set()
    st = [s for s in starts if s not in avoid]
    seen.update(st)
    while st:
        b = st.pop()
        for s in succ[b]:
            if s not in seen and s not in avoid:
                seen.add(s)
                st.append(s)
    return seen


def reach_after(body, starts, avoid=()):
    """Blocks reachable from the *successors* of `starts` (exclusive of the starts unless looped)."""
    nxt = []
    for s in starts:
        nxt.extend(body.succ[s])
    return reach(body, nxt, avoid)


def path(body, start, goals, avoid=()):
    """A shortest block path start -> any goal avoiding `avoid` (None if there is none)."""
    goals = set(goals)
    avoid = set(avoid)
    if start in avoid:
        return None
    prev = {start: None}
    q = [start]
    i = 0
    while i < len(q):
        b = q[i]
        i += 1
        if b in goals:
            out = []
            while b is not None:
                out.append(b)
                b = prev[b]
            return out[::-1]
        for s in body.succ[b]:
            if s not in prev and s not in avoid:
                prev[s] = b
                q.append(s)
    return None


def dominators(body, entry=0, succ=None, pred=None, nodes=None):
    """Iterative dominator sets (small CFGs). Returns dict block -> set of dominators."""
    succ = succ or body.succ
    if nodes is None:
        nodes = reach(body, [entry], succ=succ)
    nodes = set(nodes)
    if pred is None:
        pred = {n: [] for n in nodes}
        for n in nodes:
            for s in succ[n]:
                if s in nodes:
                    pred[s].append(n)
    dom = {n: set(nodes) for n in nodes}
    dom[entry] = {entry}
    changed = True
    order = sorted(nodes)
    while changed:
        changed = False
        for n in order:
            if n == entry:
                continue
            ps = [dom[p] for p in pred[n] if p in nodes]
            new = set.intersection(*ps) if ps else set()
            new = new | {n}
            if new != dom[n]:
                dom[n] = new
                changed = True
    return dom


def dominates(dom, a, b):
    return b in dom and a in dom[b]


def post_dominators(body, exits=None):
    """Post-dominators w.r.t. the given exit blocks (default: all `return` blocks), over
    blocks that can reach an exit. Returns dict block -> set of post-dominators."""
    if exits is None:
        exits = body.returns()
    exits = list(exits)
    n = body.nblocks
    rsucc = [[] for _ in range(n + 1)]
    live = body.reachable_blocks()
    for b in live:
        for s in body.succ[b]:
            rsucc[s].append(b)
    VIRT = n
    for e in exits:
        rsucc[VIRT].append(e)
    # nodes that can reach an exit = reachable from VIRT in reverse graph
    seen = {VIRT}
    st = [VIRT]
    while st:
        b = st.pop()
        for s in rsucc[b]:
            if s not in seen:
                seen.add(s)
                st.append(s)
    nodes = seen
    pred = {x: [] for x in nodes}
    for x in nodes:
        for s in rsucc[x]:
            if s in nodes:
                pred[s].append(x)
    dom = {x: set(nodes) for x in nodes}
    dom[VIRT] = {VIRT}
    changed = True
    order = sorted(nodes)
    while changed:
        changed = False
        for x in order:
            if x == VIRT:
                continue
            ps = [dom[p] for p in pred[x]]
            new = (set.intersection(*ps) if ps else set()) | {x}
            if new != dom[x]:
                dom[x] = new
                changed = True
    for x in dom:
        dom[x] = dom[x] - {VIRT}
    dom.pop(VIRT, None)
    return dom


def sccs(body, nodes=None):
    """Tarjan SCCs over the normal CFG restricted to `nodes`. Returns list of sets."""
    if nodes is None:
        nodes = body.reachable_blocks()
    nodes = set(nodes)
    index = {}
    low = {}
    onst = set()
    st = []
    out = []
    counter = [0]

    import sys
    sys.setrecursionlimit(max(10000, sys.getrecursionlimit()))

    def strong(v):
        index[v] = low[v] = counter[0]
        counter[0] += 1
        st.append(v)
        onst.add(v)
        for w in body.succ[v]:
            if w not in nodes:
                continue
            if w not in index:
                strong(w)
                low[v] = min(low[v], low[w])
            elif w in onst:
                low[v] = min(low[v], index[w])
        if low[v] == index[v]:
            comp = set()
            while True:
                w = st.pop()
                onst.discard(w)
                comp.add(w)
                if w == v:
                    break
            out.append(comp)

    for v in sorted(nodes):
        if v not in index:
            strong(v)
    return out


def cyclic_blocks(body):
    """Blocks that lie on some CFG cycle."""
    out = set()
    for c in sccs(body):
        if len(c) > 1:
            out |= c
        else:
            (v,) = tuple(c)
            if v in body.succ[v]:
                out.add(v)
    return out


def await_only_cycles(body):
    """SCCs that are pure `.await` poll loops (contain a yield and no call other than the
    poll plumbing). Returned as a set of blocks; used to ignore them as 'loops'."""
    POLL = ("::poll", "Pin::<", "get_context", "into_future", "new_unchecked", "ResumeTy", "from_output", "branch")
    out = set()
    for c in sccs(body):
        if len(c) < 2:
            continue
        has_yield = any(body.blocks[b]["term"]["k"] == "yield" for b in c)
        if not has_yield:
            continue
        ok = True
        for b in c:
            t = body.blocks[b]["term"]
            if t["k"] == "call":
                f = t["func"]
                nm = f.get("resolved_full") or f.get("full") or ""
                if not any(p in nm for p in POLL):
                    ok = False
        if ok:
            out |= c
    return out


# ---------------------------------------------------------------------------------------
# Variant-tracking exploration: removes the classic infeasible path
#     r = match op() { Ok(_) => other(), Err(e) => Err(e) };  if let Err(e) = r { return }
# by remembering, along a path, which enum variant a local was last *constructed* with and
# following only the matching arm of a later `switch discriminant(local)`.

def _block_effects(body, bb):
    """list of (local, variant_idx|None|('copy', src)) in statement order; None = unknown"""
    eff = []
    blk = body.blocks[bb]
    for st in blk["stmts"]:
        if st["k"] == "setdiscr":
            eff.append((st["dst"]["l"], None))
            continue
        dst = st["dst"]
        if dst["p"]:
            # writing a field of an enum local does not change its variant; deref writes unknown
            continue
        rv = st["rv"]
        if rv["k"] == "agg" and rv.get("agg") == "adt" and "variant_idx" in rv:
            eff.append((dst["l"], rv["variant_idx"]))
        elif rv["k"] == "use":
            op = rv["op"]
            p = op.get("move") or op.get("copy")
            if p is not None and not p["p"]:
                eff.append((dst["l"], ("copy", p["l"])))
            else:
                eff.append((dst["l"], None))
        else:
            eff.append((dst["l"], None))
    t = blk["term"]
    if t["k"] == "call":
        d = t["dst"]
        if not d["p"]:
            f = t["func"]
            nm = f.get("resolved") or f.get("def") or ""
            src = None
            if nm.endswith("::branch") and t["args"]:
                # `?`: Try::branch maps Ok/Some -> Continue(0), Err/None -> Break(1)
                a = t["args"][0]
                p = a.get("move") or a.get("copy")
                if p is not None and not p["p"]:
                    ty = body.locals[p["l"]]["ty"]
                    if ty.startswith(("std::result::Result<", "core::result::Result<")):
                        src = ("branch", p["l"], "result")
                    elif ty.startswith(("std::option::Option<", "core::option::Option<")):
                        src = ("branch", p["l"], "option")
            eff.append((d["l"], src))
    return eff


def _switch_subject(body, bb):
    """(local, {value: target}, otherwise) when the block ends in `switch discriminant(local)`"""
    t = body.blocks[bb]["term"]
    if t["k"] != "switch":
        return None
    op = t["discr"]
    p = op.get("move") or op.get("copy")
    if p is None or p["p"]:
        return None
    # the discriminant read is normally in the same block
    for st in reversed(body.blocks[bb]["stmts"]):
        if st["k"] == "assign" and st["dst"]["l"] == p["l"] and not st["dst"]["p"]:
            if st["rv"]["k"] == "discr" and not st["rv"]["place"]["p"]:
                return (st["rv"]["place"]["l"], {v: tg for v, tg in t["arms"]}, t["otherwise"])
            return None
    return None


def explore(body, start, avoid=(), goals=None, state=None, limit=200000):
    """Variant-tracking forward exploration from block `start` (its statements are executed).
    Returns (reached_blocks, witness_path_to_goal_or_None)."""
    avoid = set(avoid)
    goals = set(goals or ())
    init = tuple(sorted((state or {}).items()))
    seen = set()
    reached = set()
    stack = [(start, init, None)]
    parents = {}
    n = 0
    while stack:
        bb, st, par = stack.pop()
        if bb in avoid:
            continue
        key = (bb, st)
        if key in seen:
            continue
        seen.add(key)
        parents[key] = par
        reached.add(bb)
        n += 1
        if n > limit:
            # give up tracking: fall back to plain reachability (sound over-approximation)
            return reach(body, [start], avoid), path(body, start, goals, avoid) if goals else None
        if bb in goals:
            out = []
            k = key
            while k is not None:
                out.append(k[0])
                k = parents[k]
            return reached, out[::-1]
        d = dict(st)
        for (l, v) in _block_effects(body, bb):
            if v is None:
                d.pop(l, None)
            elif isinstance(v, tuple) and v[0] == "branch":
                if v[1] in d:
                    sv = d[v[1]]
                    d[l] = (0 if sv == 0 else 1) if v[2] == "result" else (1 if sv == 0 else 0)
                else:
                    d.pop(l, None)
            elif isinstance(v, tuple):
                if v[1] in d:
                    d[l] = d[v[1]]
                else:
                    d.pop(l, None)
            else:
                d[l] = v
        succs = body.succ[bb]
        sw = _switch_subject(body, bb)
        if sw is not None and sw[0] in d:
            val = d[sw[0]]
            succs = [sw[1].get(val, sw[2])]
        nst = tuple(sorted(d.items()))
        for s in succs:
            stack.append((s, nst, key))
    return reached, None


def reach_t(body, start, avoid=()):
    return explore(body, start, avoid)[0]


def path_t(body, start, goals, avoid=()):
    return explore(body, start, avoid, goals)[1]
