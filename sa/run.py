"""Entry point: python3 -m sa.run <property> <quick|thorough>"""
import importlib
import json
import os
import subprocess
import sys
import time

from . import build
from .facts import Facts
from .report import Ctx, finish, VERIF
from .grammar import Grammar


def main():
    if len(sys.argv) < 2:
        print("usage: check <property-id> [quick|thorough]")
        sys.exit(2)
    prop = sys.argv[1]
    tier = sys.argv[2] if len(sys.argv) > 2 else os.environ.get("VERIF_TIER", "quick")
    if tier not in ("quick", "thorough"):
        tier = "quick"
    repo = os.environ.get("VERIF_REPO", "/repo")
    seed = int(os.environ.get("VERIF_SEED", "0") or 0)
    t0 = time.time()
    d = build.facts_for(repo)
    if d is None:
        # the tree does not compile: no property can be decided; this is not a verdict
        print("checker: /repo does not build under cargo +nightly check; no verdict")
        sys.exit(2)
    fb = Facts(os.path.join(d, "breadlog-bin.json"))
    fl = Facts(os.path.join(d, "breadlog-lib.json"))
    g = Grammar.load(os.path.join(repo, "src", "parser", "rust_grammar.pest"))
    ctx = Ctx(prop, tier, fb, fl, g, seed, extra={"repo": repo, "facts_dir": d})
    ctx.t0 = t0
    try:
        mod = importlib.import_module("sa.rules.%s" % prop.lower())
    except ImportError as e:
        print("no rules for %s: %s" % (prop, e))
        sys.exit(2)
    info = mod.run(ctx)
    code = finish(ctx, info["explanation"], trusted=info.get("trusted"), extra_cov=info.get("coverage"))
    sys.exit(code)


if __name__ == "__main__":
    main()
