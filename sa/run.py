"""Entry point: python3 -m sa.run <property> <quick|thorough>"""
import importlib
import json
import os
import subprocess
import sys
import time

from . import build
from .facts import Facts
from .report import Ctx, finish, VERIF
from .grammar import Grammar


def main():
    if len(sys.argv) < 2:
        print("usage: check <property-id> [quick|thorough]")
        sys.exit(2)
    prop = sys.argv[1]
    tier = sys.argv[2] if len(sys.argv) > 2 else os.environ.get("VERIF_TIER", "quick")
    if tier not in ("quick", "thorough"):
        tier = "quick"
    repo = os.environ.get("VERIF_REPO", "/repo")
    seed = int(os.environ.get("VERIF_SEED", "0") or 0)
    t0 = time.time()
    d = build.facts_for(repo)
    if d is None:
        # the tree does not compile: no property can be decided; this is not a verdict
        print("checker: /repo does not build under cargo +nightly check; no verdict")
        sys.exit(2)
    fb = Facts(os.path.join(d, "breadlog-bin.json"))
    fl = Facts(os.path.join(d, "breadlog-lib.json"))
    g = Grammar.load(os.path.join(repo, "src", "parser", "rust_grammar.pest"))
    from . import canon
    renamed = canon.canonicalise(g, [fb, fl])
    ctx = Ctx(prop, tier, fb, fl, g, seed, extra={"repo": repo, "facts_dir": d})
    ctx.t0 = t0
    try:
        mod = importlib.import_module("sa.rules.%s" % prop.lower())
    except ImportError as e:
        print("no rules for %s: %s" % (prop, e))
        sys.exit(2)
    try:
        info = mod.run(ctx)
    except Exception as e:   # fail closed: a shape of code the rules cannot walk is reported, not skipped
        import traceback
        tb = traceback.extract_tb(e.__traceback__)
        at = "%s:%s" % (os.path.basename(tb[-1].filename), tb[-1].lineno) if tb else "?"
        ctx.bad(prop + "-X", "checker-exception|%s" % type(e).__name__,
                "the rules could not analyse this shape of the code (%s: %s at %s); no verdict for the obligations that follow" % (type(e).__name__, str(e)[:120], at), "")
        info = {"explanation": "rule evaluation aborted by an internal error; reported fail-closed", "trusted": []}
    extra = dict(info.get("coverage") or {})
    if tier == "thorough":
        thorough(ctx, prop, repo, fl, g, extra)
    code = finish(ctx, info["explanation"], trusted=info.get("trusted"), extra_cov=extra)
    sys.exit(code)


LIB_TOO = ("C10", "C11", "C12", "C13", "C14")


def thorough(ctx, prop, repo, fl, g, extra):
    """deeper exploration: (1) the same rules on the lib target's MIR where the property lives in
    config/parser code, (2) checker self-validation on one-instance-broken variants, (3) for C17
    clippy's restriction lints as an independent site enumerator."""
    from . import selfval
    from .report import Ctx
    if prop in LIB_TOO:
        sub = Ctx(prop, "thorough", fl, fl, g, ctx.seed, extra=ctx.extra)
        mod = importlib.import_module("sa.rules.%s" % prop.lower())
        try:
            mod.run(sub)
            for r in sub.results:
                r["rule"] = "lib/" + r["rule"]
                if not r["ok"]:
                    r["key"] = "lib/" + r["key"]
                    # identical construct, second crate target: report once (bin) unless bin passed
                    if any((not x["ok"]) and ("lib/" + x["key"]) == r["key"] for x in ctx.results):
                        continue
                ctx.results.append(r)
            extra["lib_target_instances"] = len(sub.results)
        except Exception as e:
            ctx.note("lib-target run failed: %r" % (e,))
    if repo == "/repo" or os.environ.get("VERIF_SELFVAL") == "1":
        res = selfval.run_mutants(prop, repo)
        killed = [r for r in res if r["status"] == "killed"]
        surv = [r for r in res if r["status"] == "survived"]
        extra["selfval"] = {"variants": len(res), "detected": len(killed), "survived": [r["id"] for r in surv],
                            "skipped": [r["id"] for r in res if r["status"] in ("skipped", "broken")],
                            "detail": res}
        for r in killed:
            ctx.ok("selfval", "seeded variant `%s` (%s) is reported by %s" % (r["id"], r["note"], ",".join(r["by"])), "scratch copy")
        for r in surv:
            print("CHECKER-WEAKNESS: property=%s seeded variant %s (%s) was not reported" % (prop, r["id"], r.get("note")))
    if prop == "C17":
        cs = selfval.clippy_sites(repo)
        if cs is None:
            ctx.note("clippy cross-reference not available (cargo clippy failed)")
        else:
            from .rules import c17
            mine = {(s["body"].file_short, s["line"]) for s in c17.sites(ctx.bin)}
            bin_files = {b.file_short for b in ctx.bin.bodies}
            files_tests = {}
            n = 0
            for (fn, line, lint) in sorted(cs):
                if (fn, line) in mine:
                    n += 1
                    continue
                # test modules are not part of the shipped tool
                if _in_test_module(repo, fn, line):
                    continue
                if fn not in bin_files:
                    continue  # e.g. src/lib.rs: the fuzzing facade, not part of the shipped binary
                ctx.bad("C17-R1/clippy", "clippy-only|%s|%s" % (fn, lint),
                        "clippy::%s reports a potential panic site that the audit did not enumerate" % lint, "%s:%s" % (fn, line))
            ctx.ok("C17-R1/clippy", "clippy restriction lints: %d sites, all present in the audit's own enumeration" % n, "cargo +nightly clippy")
            extra["clippy_sites"] = len(cs)


def _in_test_module(repo, fn, line):
    try:
        src = open(os.path.join(repo, fn), encoding="utf-8").read().splitlines()
    except OSError:
        return False
    for i, l in enumerate(src[:line]):
        if l.strip().startswith("mod tests"):
            return True
    return False


if __name__ == "__main__":
    main()
