"""Thin wrapper around tools/stable rxtool (regex language decisions)."""
import json
import subprocess
from . import build


def _run(args):
    build.ensure_tools()
    r = subprocess.run([build.RXTOOL] + args, stdout=subprocess.PIPE, stderr=subprocess.PIPE, text=True)
    try:
        return json.loads(r.stdout.strip().splitlines()[-1])
    except Exception:
        return {"ok": False, "error": (r.stderr or r.stdout)[:300]}


def equiv(a, b):
    return _run(["equiv", a, b])


def subset(a, b):
    return _run(["subset", a, b])


def info(a):
    return _run(["info", a])


def token(prefix, suffix, regex):
    return _run(["token", prefix, suffix, regex])


def regex_literals(facts, owner_pat):
    """(Call, literal|None) for every regex constructor call in bodies whose id matches owner_pat"""
    from .facts import op_const
    from .fmtdec import _const_behind
    out = []
    for b in facts.find(owner_pat):
        for c in b.calls:
            if c.matches(r"^regex::(Regex|RegexBuilder|bytes::Regex|RegexSet)(Builder)?::new$|^regex::RegexBuilder::"):
                lit = None
                if c.args:
                    k = _const_behind(b, c.args[0])
                    if k is not None and "str" in k:
                        lit = k["str"]
                out.append((c, lit))
    return out
