"""Debug helper: print a body's MIR compactly.  python3 -m sa.dump <facts.json> <id-regex>"""
import sys
from .facts import Facts, place_str, op_str, rv_str


def dump(b, out=sys.stdout):
    out.write("== %s [%s] %s args=%d\n" % (b.id, b.kind, b.where(), b.arg_count))
    for i, l in enumerate(b.locals):
        if l.get("name"):
            out.write("   _%d: %s  // %s\n" % (i, l["ty"][:90], l["name"]))
    for u in b.j.get("upvars", []):
        out.write("   upvar %s = %s\n" % (u["name"], place_str(u["place"])))
    live = b.reachable_blocks()
    for i, blk in enumerate(b.blocks):
        if i not in live:
            continue
        out.write(" bb%d%s:\n" % (i, " (cleanup)" if blk["cleanup"] else ""))
        for st in blk["stmts"]:
            if st["k"] == "assign":
                out.write("    %s = %s   [%s]\n" % (place_str(st["dst"]), rv_str(st["rv"]), st["line"]))
            else:
                out.write("    setdiscr %s = %s\n" % (place_str(st["dst"]), st["variant"]))
        t = blk["term"]
        k = t["k"]
        if k == "call":
            f = t["func"]
            name = f.get("resolved_full") or f.get("full") or ("indirect " + op_str(f.get("indirect")))
            out.write("    %s = %s(%s) -> bb%s   [%s]%s\n" % (
                place_str(t["dst"]), name, ", ".join(op_str(a) for a in t["args"]), t.get("target"), t["line"],
                " exp=" + t["exp"] if t.get("exp") else ""))
        elif k == "switch":
            out.write("    switch %s [%s] else bb%d   [%s]\n" % (
                op_str(t["discr"]), ", ".join("%d:bb%d" % (a[0], a[1]) for a in t["arms"]), t["otherwise"], t["line"]))
        elif k == "goto":
            out.write("    goto bb%d\n" % t["target"])
        elif k == "drop":
            out.write("    drop(%s) -> bb%d\n" % (place_str(t["place"]), t["target"]))
        elif k == "assert":
            out.write("    assert(%s == %s, %s) -> bb%d  [%s]\n" % (op_str(t["cond"]), t["expected"], t["msg"], t["target"], t["line"]))
        elif k == "yield":
            out.write("    yield -> bb%d\n" % t["target"])
        else:
            out.write("    %s\n" % k)


if __name__ == "__main__":
    f = Facts(sys.argv[1])
    for b in f.find(sys.argv[2]):
        dump(b)
