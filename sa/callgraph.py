"""Monomorphic call graph (exported by the driver) with reachability and path queries."""
from collections import defaultdict


class CallGraph:
    def __init__(self, facts):
        cg = facts.cg
        self.facts = facts
        self.roots = cg["roots"]
        self.nodes = {n["name"]: n for n in cg["nodes"]}
        self.out = defaultdict(list)
        for e in cg["edges"]:
            self.out[e["from"]].append(e)
        self.edges = cg["edges"]

    def reach(self, start_edges=None, roots=None, skip_edge=None):
        """BFS. Returns (visited local nodes: name -> parent edge, leaf edges reached).
        `skip_edge(e)` -> True removes an edge (e.g. edges inside the edit-only region)."""
        parent = {}
        q = []
        leaves = []
        if roots is not None:
            for r in roots:
                parent[r] = None
                q.append(r)
        for e in start_edges or []:
            self._take(e, parent, q, leaves)
        i = 0
        while i < len(q):
            n = q[i]
            i += 1
            for e in self.out.get(n, []):
                if skip_edge and skip_edge(e):
                    continue
                self._take(e, parent, q, leaves)
        return parent, leaves

    def _take(self, e, parent, q, leaves):
        to = e["to"]
        if to in self.nodes:
            if to not in parent:
                parent[to] = e
                q.append(to)
        else:
            leaves.append(e)

    def path_to(self, parent, edge):
        """call path (list of edges) from a root to `edge`"""
        chain = [edge]
        cur = edge["from"]
        seen = set()
        while cur in parent and parent[cur] is not None and cur not in seen:
            seen.add(cur)
            chain.append(parent[cur])
            cur = parent[cur]["from"]
        return chain[::-1]

    @staticmethod
    def fmt_path(chain):
        return " -> ".join(["%s" % chain[0]["from"]] + ["%s (%s:%s)" % (e["to"], e["body"].split("::")[-1], e["line"]) for e in chain])


def leaf_def(e):
    c = e.get("callee")
    if c:
        return c.get("def") or e["to"]
    return e.get("def") or e["to"]
