"""Inter-procedural bindings for provenance: parameter <- arguments at the call sites of a local
function, captured variable <- operand at the closure / coroutine creation site (an `async fn`'s
body is a coroutine whose captures are the function's parameters)."""
from .facts import op_place
from .prov import Prov

_IDX = {}


def callers_index(facts):
    k = id(facts)
    if k not in _IDX:
        idx = {}
        for b in facts.non_test_bodies():
            versions = [b]
            orig = getattr(facts, "inlined", {}).get(b.id)
            if orig is not None:
                versions.append(orig)   # the body before helper inlining still holds the calls to the helpers
            for v in versions:
                for c in v.calls:
                    if v is not b and any(c.bb == c2.bb and c.name == c2.name for c2 in b.calls):
                        continue
                    for n in c.names():
                        if facts.body(n) is not None:
                            idx.setdefault(n, []).append((v, c))
        _IDX[k] = idx
    return _IDX[k]


def creation_site(facts, body):
    """(parent body, aggregate rvalue) that creates this closure / coroutine, or (None, None)"""
    par = facts.body(body.parent) if body.parent else None
    seen = 0
    while par is not None and seen < 3:
        for bb in par.reachable_blocks():
            for st in par.blocks[bb]["stmts"]:
                if st["k"] == "assign" and st["rv"]["k"] == "agg" and st["rv"].get("def") == body.id:
                    return par, st["rv"]
        par = facts.body(par.parent) if par.parent else None
        seen += 1
    return None, None


def upvar_index(body, name_or_idx):
    if isinstance(name_or_idx, int):
        return name_or_idx
    for u in body.j.get("upvars", []):
        if u["name"] == name_or_idx:
            fs = [e["f"] for e in u["place"]["p"] if isinstance(e, dict) and "f" in e]
            if fs:
                return fs[0]
    return None


def expand(facts, body, origins, stop_at=(), depth=0, _seen=None, interproc=False):
    """Replace ('param', k) / ('upvar', x) origins by the origins of what the callers / the creating
    function pass. Origins that cannot be expanded (root function, no call site) are kept."""
    _seen = _seen if _seen is not None else set()
    out = set()
    for o in origins:
        key = (body.id, o[0], o[1] if len(o) > 1 and not isinstance(o[1], tuple) else None)
        if depth > 4 or key in _seen:
            out.add(o)
            continue
        if o[0] == "upvar":
            par, agg = creation_site(facts, body)
            i = upvar_index(body, o[1])
            if par is not None and i is not None and i < len(agg["ops"]):
                _seen.add(key)
                pp = Prov(par, stop_at=stop_at, interproc=interproc)
                out |= expand(facts, par, pp.origins_op(agg["ops"][i]), stop_at, depth + 1, _seen, interproc)
                _seen.discard(key)   # a guard against cycles, not against reaching the same binding twice
            else:
                out.add(o)
        elif o[0] == "param" and body.kind in ("Fn", "AssocFn"):
            sites = callers_index(facts).get(body.id, [])
            if not sites:
                out.add(("param", o[1], body.id))
                continue
            _seen.add(key)
            for (cb, c) in sites:
                if o[1] - 1 < len(c.args):
                    cp = Prov(cb, stop_at=stop_at, interproc=interproc)
                    out |= expand(facts, cb, cp.origins_op(c.args[o[1] - 1]), stop_at, depth + 1, _seen, interproc)
            _seen.discard(key)
        else:
            out.add(o)
    return out


def origins_ip(facts, body, op, stop_at=()):
    """origins of an operand with parameters and captures resolved through callers"""
    p = Prov(body, stop_at=stop_at)
    return expand(facts, body, p.origins_op(op), stop_at)
