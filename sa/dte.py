"""RK4 decision-table extraction on a loop-free CFG region.

Walks every path of the region, propagating boolean copies / negations of *atoms* (results of
selected calls, Option discriminants of selected calls). A branch on anything else becomes an
opaque atom named after its location, so an extra condition shows up as a difference from the
expected table. There is no solver: atoms are independent booleans, a path is dropped only
when it needs the same atom to be both true and false.

Result: list of rows (valuation: dict atom->bool, events: tuple of event labels, outcome).
"""
from .facts import op_place, op_const
from .common import enum_switch, single_def


class Atoms:
    """maps calls to atom names. spec: list of (regex, name, kind) with kind 'bool' (call returns
    bool) or 'some' (call returns Option; atom = is Some)."""

    def __init__(self, spec, call_hook=None, place_hook=None):
        import re
        self.spec = [(re.compile(r), n, k) for r, n, k in spec]
        self.call_hook = call_hook
        self.place_hook = place_hook

    def of_call(self, call):
        """-> (name, kind, positive) ; kind 'bool' | 'some'"""
        if self.call_hook is not None:
            r = self.call_hook(call)
            if r is not None:
                return r
        for r, n, k in self.spec:
            if any(r.search(x) for x in call.names()):
                return n, k, True
        return None

    def of_place(self, body, place):
        """discriminant read of a place that is not a call result (e.g. `match &self.field`):
        -> (name, some_is_true) or None"""
        if self.place_hook is not None:
            return self.place_hook(body, place)
        return None


def extract(body, start, stops, atoms, events=None, outcome_local=None, max_paths=4000):
    """start: block; stops: set of blocks where a path ends (not executed). A path also ends at
    `return`. events(bb, stmt_or_term) -> label or None. outcome_local: local whose boolean value
    at the end of the path is reported (e.g. 0 for a predicate closure)."""
    rows = []
    stops = set(stops)
    count = [0]

    def val_of(env, op):
        c = op_const(op)
        if c is not None:
            if "int" in c:
                return ("const", bool(c["int"]))
            return ("unk", None)
        p = op_place(op)
        if p is None:
            return ("unk", None)
        if p["p"]:
            # `t.k` where t = (a, b, ..) was built on this path: the k-th component's value
            if len(p["p"]) == 1 and isinstance(p["p"][0], dict) and "f" in p["p"][0] and "downcast" not in p["p"][0]:
                return env.get((p["l"], p["p"][0]["f"]), ("unk", None))
            return ("unk", None)
        return env.get(p["l"], ("unk", None))

    def walk(bb, env, asg, evs, seen):
        count[0] += 1
        if count[0] > max_paths:
            rows.append(({"<too-many-paths>": True}, tuple(evs), None))
            return
        if bb in stops or bb in seen:
            rows.append((dict(asg), tuple(evs), env.get(outcome_local) if outcome_local is not None else None))
            return
        seen = seen | {bb}
        env = dict(env)
        evs = list(evs)
        blk = body.blocks[bb]
        for st in blk["stmts"]:
            if events:
                e = events(bb, st)
                if e:
                    evs.append(e)
            if st["k"] != "assign" or st["dst"]["p"]:
                continue
            d = st["dst"]["l"]
            rv = st["rv"]
            if rv["k"] == "use":
                env[d] = val_of(env, rv["op"])
            elif rv["k"] == "un" and rv["op"] == "Not":
                v = val_of(env, rv["a"])
                if v[0] == "const":
                    env[d] = ("const", not v[1])
                elif v[0] == "atom":
                    env[d] = ("atom", v[1], not v[2])
                else:
                    env[d] = ("unk", None)
            elif rv["k"] == "agg" and rv.get("agg") == "tuple":
                env[d] = ("unk", None)
                for i, o in enumerate(rv["ops"]):
                    env[(d, i)] = val_of(env, o)
            elif rv["k"] == "discr":
                pl = rv["place"]
                src = env.get(pl["l"]) if not pl["p"] else None
                if pl["p"] and len(pl["p"]) == 1 and isinstance(pl["p"][0], dict) and "f" in pl["p"][0] and "downcast" not in pl["p"][0]:
                    src = env.get((pl["l"], pl["p"][0]["f"]))
                if src and src[0] == "someatom":
                    env[d] = ("discr", src[1], src[2] if len(src) > 2 else True)
                else:
                    pa = atoms.of_place(body, pl)
                    if pa is not None and pa[0] == "variants":
                        env[d] = ("vdiscr", pa[1], pa[2])
                    elif pa is not None:
                        env[d] = ("discr", pa[0], pa[1])
                    else:
                        env[d] = ("unk", None)
            else:
                env[d] = ("unk", None)
        t = blk["term"]
        if events:
            e = events(bb, t)
            if e:
                evs.append(e)
        k = t["k"]
        if k == "return":
            rows.append((dict(asg), tuple(evs), env.get(outcome_local) if outcome_local is not None else None))
            return
        if k == "call":
            from .facts import Call
            c = Call(body, bb, t)
            a = atoms.of_call(c)
            d = t["dst"]
            if not d["p"]:
                if a and a[1] == "bool":
                    env[d["l"]] = ("atom", a[0], a[2])
                elif a and a[1] == "some":
                    env[d["l"]] = ("someatom", a[0], a[2])
                else:
                    env[d["l"]] = ("unk", None)
            if t.get("target") is not None:
                walk(t["target"], env, asg, evs, seen)
            else:
                rows.append((dict(asg), tuple(evs) + ("<diverges>",), None))
            return
        if k == "switch":
            v = val_of(env, t["discr"])
            arms = {a[0]: a[1] for a in t["arms"]}
            other = t["otherwise"]
            # neutral branches: (1) .await poll loops: only the Ready arm continues the path;
            # (2) branches generated inside logging / tracing / formatting macros: all arms,
            # no atom (their bodies contain no event of interest by construction of `events`)
            es = enum_switch(body, bb)
            if es is not None and not es[0]["p"] and body.local_ty(es[0]["l"]).startswith(("std::task::Poll<", "core::task::Poll<")):
                walk(arms.get(0, other), env, asg, evs, seen)
                return
            if v[0] not in ("const", "atom", "discr", "vdiscr") and _macro_internal(t, blk):
                tg = []
                for tgt in list(arms.values()) + [other]:
                    if tgt not in tg and body.blocks[tgt]["term"]["k"] != "unreachable":
                        tg.append(tgt)
                for tgt in tg:
                    walk(tgt, env, asg, evs, seen)
                return
            if v[0] == "const":
                tgt = arms.get(1 if v[1] else 0, other)
                walk(tgt, env, asg, evs, seen)
                return
            if v[0] == "atom":
                name, pos = v[1], v[2]
                for truth in (True, False):
                    aval = truth if pos else (not truth)
                    if name in asg and asg[name] != aval:
                        continue
                    a2 = dict(asg)
                    a2[name] = aval
                    tgt = arms.get(1 if truth else 0, other)
                    walk(tgt, env, a2, evs, seen)
                return
            if v[0] == "vdiscr":
                prefix, vnames = v[1], v[2]
                listed = [a[0] for a in t["arms"]]
                for val, tgt in list(arms.items()) + [(None, other)]:
                    if body.blocks[tgt]["term"]["k"] == "unreachable":
                        continue
                    a2 = dict(asg)
                    okp = True
                    for lv in listed:
                        nm = prefix + (vnames[lv] if lv < len(vnames) else str(lv))
                        want = (lv == val)
                        if nm in a2 and a2[nm] != want:
                            okp = False
                        a2[nm] = want
                    if okp:
                        walk(tgt, env, a2, evs, seen)
                return
            if v[0] == "discr":
                name = v[1]
                pos = v[2] if len(v) > 2 else True
                for is_some in (True, False):
                    aval = is_some if pos else (not is_some)
                    if name in asg and asg[name] != aval:
                        continue
                    a2 = dict(asg)
                    a2[name] = aval
                    tgt = arms.get(1 if is_some else 0, other)
                    if body.blocks[tgt]["term"]["k"] == "unreachable":
                        continue
                    walk(tgt, env, a2, evs, seen)
                return
            # opaque
            name = "opaque@%s:%s" % (body.file_short, t.get("line"))
            targets = []
            for val, tgt in t["arms"]:
                targets.append((val, tgt))
            targets.append(("else", other))
            for val, tgt in targets:
                if body.blocks[tgt]["term"]["k"] == "unreachable":
                    continue
                a2 = dict(asg)
                a2["%s=%s" % (name, val)] = True
                walk(tgt, env, a2, evs, seen)
            return
        succ = body.succ[bb]
        if not succ:
            rows.append((dict(asg), tuple(evs) + ("<end:%s>" % k,), None))
            return
        walk(succ[0], env, asg, evs, seen)

    walk(start, {}, {}, [], frozenset())
    return rows


NEUTRAL_MACROS = ("log!", "info!", "warn!", "error!", "debug!", "trace!", "event!", "format_args!", "format!", "valueset!", "tracing", "level_enabled!", "callsite")


def _macro_internal(term, blk):
    e = term.get("exp") or ""
    if any(m in e for m in NEUTRAL_MACROS):
        return True
    # the discriminant computation carries the expansion info when the terminator does not
    for st in blk["stmts"]:
        if any(m in (st.get("exp") or "") for m in NEUTRAL_MACROS):
            return True
    return False


def summarise(rows, atom_names, project):
    """Collapse rows to {valuation over atom_names (tuple of True/False/None): set(project(row))}.
    A row that constrains an opaque atom keeps it in the key (so it shows)."""
    table = {}
    for asg, evs, out in rows:
        key = tuple(asg.get(a) for a in atom_names)
        extra = tuple(sorted(k for k in asg if k not in atom_names))
        table.setdefault((key, extra), set()).add(project(asg, evs, out))
    return table


def eval_predicate(rows):
    """for a predicate closure: {(valuation tuple sorted by atom): outcome bool/atom}. Outcome
    ('atom', name, pos) is expanded."""
    out = {}
    for asg, evs, o in rows:
        items = dict(asg)
        if o is None:
            res = None
            out[tuple(sorted(items.items()))] = res
            continue
        if o[0] == "const":
            out[tuple(sorted(items.items()))] = o[1]
        elif o[0] == "atom":
            name, pos = o[1], o[2]
            if name in items:
                out[tuple(sorted(items.items()))] = items[name] if pos else (not items[name])
            else:
                for truth in (True, False):
                    i2 = dict(items)
                    i2[name] = truth
                    out[tuple(sorted(i2.items()))] = truth if pos else (not truth)
        else:
            out[tuple(sorted(items.items()))] = None
    return out
