"""Checker self-validation (thorough tier): source variants with ONE instance broken.

Each mutant is (id, properties expected to report it, file, old text, new text, note). The
thorough command applies a mutant to a scratch copy of /repo under /tmp (created and removed
by the command), rebuilds the facts, and requires the named property's rules to report a
violation. A mutant whose `old` text no longer occurs exactly once in the tree is skipped
(the tree has moved on), never failed. Mutants must still compile (cargo check); a mutant
that does not compile is reported as skipped-broken."""

G = "src/codegen/generate.rs"
CP = "src/parser/code_parser.rs"
RP = "src/parser/rust_parser.rs"
GR = "src/parser/rust_grammar.pest"
CX = "src/config/context.rs"
FD = "src/codegen/finder.rs"
MN = "src/main.rs"

MUTANTS = [
    # ---- C01
    ("c01-fetch-add", ["C01"], G,
     "|id| id.checked_add(1),", "|id| Some(id.wrapping_add(1)),", "counter step wraps"),
    ("c01-const-start", ["C01"], G,
     "                references_id_result.0\n", "                references_id_result.0.max(START_REFERENCE_ID)\n", "start value goes through extra logic"),
    ("c01-scan-guard", ["C01", "C05"], G,
     "            if reference.usable_reference_position()\n            {\n                if let Some(reference_id) = reference.reference()",
     "            if reference.usable_reference_position() && reference.kind() != parser::LogRefKind::StructuredPreExisting\n            {\n                if let Some(reference_id) = reference.reference()",
     "pre-existing structured ids no longer reach the maximum"),
    ("c01-saturating", ["C01"], G,
     "Some((ref_id_result.checked_add(1)?, missing_refs_result))", "Some((ref_id_result.saturating_add(1), missing_refs_result))", "max+1 saturates"),
    # ---- C02
    ("c02-lock-after-match", ["C02", "C18"], G,
     "        let cachable_reference_id = next_reference_id.load(std::sync::atomic::Ordering::Relaxed);\n        context.cache_next_reference_id(cachable_reference_id, context.config.config_dir.as_str());\n\n        let reference_updates = match reference_updates\n        {\n            Some(r) => r,\n            None => return Err(\"Failed to insert references\"),\n        };\n",
     "        let reference_updates = match reference_updates\n        {\n            Some(r) => r,\n            None => return Err(\"Failed to insert references\"),\n        };\n\n        let cachable_reference_id = next_reference_id.load(std::sync::atomic::Ordering::Relaxed);\n        context.cache_next_reference_id(cachable_reference_id, context.config.config_dir.as_str());\n",
     "lock write skipped when the pass was stopped"),
    ("c02-lock-from-counts", ["C02"], G,
     "let cachable_reference_id = next_reference_id.load(std::sync::atomic::Ordering::Relaxed);",
     "let cachable_reference_id = calculated_next_reference_id + reference_updates.as_ref().map_or(0, |r| r.num_inserted_references as u32);",
     "lock value from success counts"),
    # ---- C03
    ("c03-no-tail", ["C03"], G,
     "        if unwritten_content_start_pos < end_of_file_index\n", "        if unwritten_content_start_pos + 1 < end_of_file_index\n", "tail guard off by one"),
    ("c03-cursor-skip", ["C03"], G,
     "unwritten_content_start_pos += insert_pos - unwritten_content_start_pos;", "unwritten_content_start_pos = insert_pos + 1;", "cursor skips a byte"),
    ("c03-write", ["C03", "C07"], G,
     "                .write_all(insertable_ref_id_string.as_bytes())\n", "                .write(insertable_ref_id_string.as_bytes())\n", "partial write of the token"),
    ("c03-number-padded", ["C03"], CP, 'result.push_str(format!("{}", reference_id).as_str());', 'result.push_str(format!("{:02}", reference_id).as_str());', "zero-padded number in the key-value token"),
    ("c03-suffix-first", ["C03"], CP, "                result.push_str(suffix);", "                result.insert_str(0, suffix);", "suffix put in front"),
    ("c03-prefix-twice", ["C03"], CP, "                result.push_str(prefix);", "                result.push_str(prefix);\n                result.push_str(prefix);", "prefix appended twice"),
    ("c03-token-space", ["C03", "C12"], CP,
     'result.push_str(&format!("[ref: {}] ", reference_id));', 'result.push_str(&format!("[ref:{}] ", reference_id));', "token spelling"),
    # ---- C04
    ("c04-refresh-lock", ["C04"], G,
     "        if missing_reference_count > 0\n", "        if let Some(id) = context.cached_next_reference_id { context.cache_next_reference_id(id, context.config.config_dir.as_str()); }\n        if missing_reference_count > 0\n", "check mode refreshes the lock"),
    # ---- C05
    ("c05-ge", ["C05"], G,
     "        if missing_reference_count > 0\n", "        if missing_reference_count > 1\n", "verdict threshold"),
    ("c05-count-unusable", ["C05"], G,
     "                if !reference.usable_reference_position()\n                {\n                    task::spawn",
     "                if !reference.usable_reference_position() && path.is_empty()\n                {\n                    task::spawn", "unusable counted as missing"),
    ("c05-column-shift", ["C05", "C13"], RP,
     "                                    rule_ref_container_span.start_pos().line_col().1 + 1,\n", "                                    rule_ref_container_span.start_pos().line_col().1,\n", "column and offset disagree"),
    # ---- C07
    ("c07-no-sync", ["C07"], G,
     "            Ok(_) => scratch_file.file().sync_all().await,\n", "            Ok(_) => Ok(()),\n", "fsync dropped"),
    ("c07-swallow-write-error", ["C07", "C08"], G,
     "                        error!(\"[ref: 13] Failed to write to temporary file: {}\", e);\n                    })\n                    .await;\n\n                    return Some(InsertReferencesResult {\n                        failure: true,\n                        num_inserted_references: 0,\n                    });\n",
     "                        error!(\"[ref: 13] Failed to write to temporary file: {}\", e);\n                    })\n                    .await;\n",
     "tail write error no longer aborts"),
    # ---- C08
    ("c08-or-assign", ["C08"], G, "            reduce_failure |= map_result.failure;", "            reduce_failure = map_result.failure;", "OR-fold became assignment"),
    ("c08-rename-ok", ["C08"], G,
     "                tracing::event!(tracing::Level::TRACE, \"failed_to_rename_temp_file\");\n\n                return Some(InsertReferencesResult {\n                    failure: true,",
     "                tracing::event!(tracing::Level::TRACE, \"failed_to_rename_temp_file\");\n\n                return Some(InsertReferencesResult {\n                    failure: false,", "rename failure reported as success"),
    # ---- C10 / C11 (grammar + filter)
    ("c10-crlf", ["C10"], GR, '"\\u{000C}" | "\\r" | " "', '"\\u{000C}" | " "', "CR no longer whitespace"),
    ("c10-sval", ["C10", "C13"], GR, '"err" | "sval" | "serde"', '"err" | "serde"', "modifier vocabulary"),
    ("c10-word-skip", ["C10", "C11"], GR, "(log_macro | ANY)* ~", "(log_macro | ((XID_START | \"_\") ~ XID_CONTINUE*) | ANY)* ~",
     "non-atomic skip-a-word alternative in the scan loop (eats the name after `return `)"),
    ("c11-ends-with", ["C11", "C10"], RP,
     "            if macro_name == config_macro.name.as_str()\n", "            if macro_name.ends_with(config_macro.name.as_str())\n", "suffix match in the macro filter"),
    ("c11-block-comment", ["C11"], GR, '("/*" ~ (!"*/" ~ ANY)* ~ "*/")', '("/**" ~ (!"*/" ~ ANY)* ~ "*/")', "plain block comments no longer comments"),
    # ---- C12
    ("c12-unanchored", ["C12"], CP, 'Regex::new(r"^\\[ref: ([0-9]{1,10})\\]")', 'Regex::new(r"\\[ref: ([0-9]{1,10})\\]")', "regex not anchored"),
    ("c12-nine", ["C12"], CP, 'Regex::new(r"^\\[ref: ([0-9]{1,10})\\]")', 'Regex::new(r"^\\[ref: ([0-9]{1,9})\\]")', "ten-digit ids rejected"),
    ("c12-backslash-d", ["C12"], CP, 'Regex::new(r"^\\[ref: ([0-9]{1,10})\\]")', 'Regex::new(r"^\\[ref: (\\d{1,10})\\]")', "non-ASCII digits accepted"),
    # ---- C13
    ("c13-continue", ["C13"], RP,
     "                                            Ok(val) => Some(val),\n                                        };\n\n                                        break;\n",
     "                                            Ok(val) => Some(val),\n                                        };\n", "search continues after the first ref"),
    ("c13-separators", ["C13"], RP, "                            if total_kvps > 0\n", "                            if total_kvps > 1\n", "separator threshold"),
    # ---- C14
    ("c14-continue", ["C14"], CP,
     "                }\n            }\n        }\n\n        break;\n    }\n\n    false\n}", "                }\n            }\n        }\n    }\n\n    false\n}", "code lines are skipped when looking for a directive"),
    ("c14-leftmost", ["C14"], CP, "for capture in line_comment_extractor.captures_iter(line)", "for capture in line_comment_extractor.captures(line)", "only the left-most comment on the line is examined"),
    ("c14-greedy", ["C14"], "src/parser/rust_parser.rs", 'Regex::new(r"\\/\\/(.+)|\\/\\*(.+?)\\*\\/")', 'Regex::new(r"\\/\\/(.+)|\\/\\*(.+)\\*\\/")', "greedy block-comment group"),
    ("c14-no-lower", ["C14"], CP, "if comment.as_str().to_lowercase().trim() == directive_name", "if comment.as_str().trim() == directive_name", "case-sensitive directive"),
    ("c14-text", ["C14"], CP, 'const NO_KVP_DIRECTIVE_TEXT: &str = "breadlog:no-kvp";', 'const NO_KVP_DIRECTIVE_TEXT: &str = "breadlog:nokvp";', "directive text"),
    # ---- C15
    ("c15-follow", ["C15"], FD, "WalkDir::new(&self.context.config.source_dir)\n", "WalkDir::new(&self.context.config.source_dir)\n            .follow_links(true)\n", "symlinks followed"),
    ("c15-lowercase", ["C15"], FD, "Ok(extension) => extension.to_string(),", "Ok(extension) => extension.to_lowercase(),", "case-folded extension"),
    ("c15-is-file", ["C15"], FD, "if !entry.file_type().is_file()", "if !entry.path().is_file()", "link-following file test"),
    ("c15-walk-errors", ["C15"], FD, "                Err(e) =>\n                {\n                    error!(\"[ref: 39] Failed to search the source directory: {}\", e);\n                    return false;\n                },",
     "                Err(e) =>\n                {\n                    error!(\"[ref: 39] Failed to search the source directory: {}\", e);\n                    continue;\n                },", "walk error logged, search goes on"),
    ("c01-lock-zero", ["C01"], CX, "Ok(loaded_cache) if loaded_cache.next_reference_id > 0 =>", "Ok(loaded_cache) if loaded_cache.next_reference_id < u32::MAX =>", "lock value 0 accepted"),
    # ---- C16
    ("c16-default", ["C16"], CX, "fn default_use_cache() -> bool\n{\n    true\n}", "fn default_use_cache() -> bool\n{\n    false\n}", "use_cache default"),
    ("c16-unguarded-read", ["C16"], CX, "        if !config.use_cache || !cache_path.exists()\n", "        if !cache_path.exists()\n", "lock read with use_cache false"),
    # ---- C17
    ("c17-unwrap", ["C17"], G, "        Ok(v) => Some(v),\n        Err(e) =>\n        {\n            let path_copy = path.clone();", "        Ok(v) => Some(v),\n        Err(e) if path.ends_with(\".bak.rs\") => { let _ = e; Some(std::str::from_utf8(&[0xff]).unwrap().to_string()) },\n        Err(e) =>\n        {\n            let path_copy = path.clone();", "new unwrap"),
    # ---- C18
    ("c18-no-poll", ["C18"], G,
     "            if stop_flag.load(std::sync::atomic::Ordering::Relaxed)\n            {\n                return None;\n            }\n\n            let path = file.path.clone();",
     "            let path = file.path.clone();", "per-file poll removed"),
    ("c18-sigint-only", ["C18"], MN, "for signal in [signal_hook::consts::SIGTERM, signal_hook::consts::SIGINT]", "for signal in [signal_hook::consts::SIGINT, signal_hook::consts::SIGINT]", "SIGTERM not registered"),
]
