"""Classification of external API leaves with respect to the filesystem (DESIGN §3.3).

Inside the fs-capable namespaces a function is either on the read-only allow-list or it
is treated as MUTATING (fail-closed inside these namespaces). Outside them, external
functions are assumed not to touch the filesystem (assumption recorded in the evidence)."""
import re

FS_NAMESPACES = [
    r"^std::fs::", r"^std::os::unix::fs", r"^std::os::fd", r"^std::process::", r"^async_std::fs::",
    r"^async_std::io::WriteExt", r"^async_std::io::write::", r"^<async_std::io::write::", r"^async_std::io::copy", r"^async_std::os::unix::fs",
    r"^tempfile::", r"^walkdir::", r"^libc::", r"^nix::", r"^std::io::Write::", r"^std::io::copy",
    r"^<async_std::fs::", r"^<std::fs::", r"^<tempfile::", r"^<std::io::BufWriter", r"^<std::io::LineWriter",
    r"^std::io::BufWriter", r"^std::io::LineWriter", r"^std::env::set_", r"^std::env::remove_", r"^fs_err::", r"^tokio::fs::",
    r"^futures_lite::(io::)?AsyncWriteExt", r"^futures_util::(io::)?AsyncWriteExt", r"^futures::(io::)?AsyncWriteExt", r"^tokio::io::AsyncWriteExt",
    r"^async_std::io::prelude::WriteExt", r"^async_std::prelude::.*WriteExt", r"^futures_io::AsyncWrite", r"^futures::io::AsyncWrite", r"^std::path::Path::(exists|is_file|is_dir|metadata|symlink_metadata|read_dir|read_link|canonicalize|try_exists|is_symlink)$",
]

READ_ONLY = [
    r"^std::fs::read_to_string$", r"^std::fs::read$", r"^std::fs::metadata$", r"^std::fs::symlink_metadata$",
    r"^std::fs::read_dir$", r"^std::fs::read_link$", r"^std::fs::canonicalize$", r"^std::fs::exists$",
    r"^std::fs::Metadata::", r"^std::fs::FileType::", r"^std::fs::DirEntry::", r"^<std::fs::ReadDir as ",
    r"^std::fs::File::open$", r"^std::fs::File::metadata$", r"^<std::fs::File as std::io::Read>", r"^<std::fs::File as std::ops::Drop>",
    r"^<std::fs::Metadata as ", r"^<std::fs::FileType as ", r"^<std::fs::DirEntry as ",
    r"^std::path::Path::(exists|is_file|is_dir|metadata|symlink_metadata|read_dir|read_link|canonicalize|try_exists|is_symlink)$",
    r"^async_std::fs::read_to_string(::\{closure#\d+\})?$", r"^async_std::fs::read(::\{closure#\d+\})?$",
    r"^async_std::fs::metadata(::\{closure#\d+\})?$", r"^async_std::fs::symlink_metadata(::\{closure#\d+\})?$",
    r"^async_std::fs::File::open(::\{closure#\d+\})?$",
    r"^<async_std::fs::File as std::ops::Drop>::drop$",  # closes (and flushes what edit code wrote: no File exists in check mode)
    r"^<async_std::fs::File as (async_std|futures_io|futures_lite)::.*Read",
    r"^walkdir::", r"^<walkdir::",
    r"^<std::io::(Stdout|Stderr|StdoutLock|StderrLock|Sink|Empty|Cursor)", r"^<(&mut )?std::vec::Vec<u8",
]

_NS = [re.compile(p) for p in FS_NAMESPACES]
_RO = [re.compile(p) for p in READ_ONLY]

# exact mutators we know on today's tree (used by the positive control of C04 and by C07)
KNOWN_MUTATORS = [
    r"^async_std::fs::File::create", r"^async_std::io::WriteExt::write_all$", r"^async_std::io::WriteExt::flush$",
    r"^async_std::fs::File::sync_all", r"^async_std::fs::rename", r"^std::fs::remove_file$", r"^std::fs::write$",
]


def classify(defpath):
    """'mutating' | 'readonly' | 'nonfs'"""
    if any(r.search(defpath) for r in _NS):
        if any(r.search(defpath) for r in _RO):
            return "readonly"
        return "mutating"
    return "nonfs"
