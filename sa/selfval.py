"""Thorough tier: self-validation of the rules against one-instance-broken source variants,
and (C17) clippy's restriction lints as an independent panic-site enumerator."""
import importlib
import json
import os
import shutil
import subprocess
import tempfile

from . import build
from .facts import Facts
from .grammar import Grammar
from .mutants import MUTANTS
from .report import Ctx, load_known


def _rules_report(prop, repo, facts_dir):
    fb = Facts(os.path.join(facts_dir, "breadlog-bin.json"))
    fl = Facts(os.path.join(facts_dir, "breadlog-lib.json"))
    g = Grammar.load(os.path.join(repo, "src", "parser", "rust_grammar.pest"))
    from . import canon
    canon.canonicalise(g, [fb, fl])
    ctx = Ctx(prop, "quick", fb, fl, g, 0, extra={"repo": repo, "facts_dir": facts_dir})
    mod = importlib.import_module("sa.rules.%s" % prop.lower())
    mod.run(ctx)
    known = {k["key"] for k in load_known() if k.get("property") == prop and k.get("status") == "known"}
    return [r for r in ctx.results if not r["ok"] and r["key"] not in known]


def run_mutants(prop, repo="/repo", only=None):
    """returns list of dicts {id, status: killed|survived|skipped|broken, by: [rule keys]}"""
    out = []
    todo = [m for m in MUTANTS if prop in m[1] and (only is None or m[0] in only)]
    if not todo:
        return out
    base = tempfile.mkdtemp(prefix="bl-mut-", dir="/tmp")
    try:
        scratch = os.path.join(base, "repo")
        for (mid, props, path, old, new, note) in todo:
            if os.path.exists(scratch):
                shutil.rmtree(scratch)
            shutil.copytree(repo, scratch, ignore=shutil.ignore_patterns("target", ".git", "_seed"))
            fp = os.path.join(scratch, path)
            try:
                src = open(fp, encoding="utf-8").read()
            except OSError:
                out.append({"id": mid, "status": "skipped", "note": "file missing"})
                continue
            if src.count(old) != 1:
                out.append({"id": mid, "status": "skipped", "note": "anchor text occurs %d times in the current tree" % src.count(old)})
                continue
            open(fp, "w", encoding="utf-8").write(src.replace(old, new))
            d = build.facts_for(scratch)
            if d is None:
                out.append({"id": mid, "status": "broken", "note": "variant does not compile"})
                continue
            try:
                viol = _rules_report(prop, scratch, d)
            except Exception as e:  # a crash of the rules on a variant is a detection failure
                out.append({"id": mid, "status": "survived", "note": "rules crashed: %r" % (e,)})
                continue
            if viol:
                out.append({"id": mid, "status": "killed", "note": note, "by": sorted({v["rule"] for v in viol}), "first": viol[0]["what"][:160]})
            else:
                out.append({"id": mid, "status": "survived", "note": note})
    finally:
        shutil.rmtree(base, ignore_errors=True)
    return out


CLIPPY_LINTS = ["unwrap_used", "expect_used", "indexing_slicing", "string_slice", "arithmetic_side_effects", "panic", "unreachable",
                "unimplemented", "todo", "integer_division", "get_unwrap"]


def clippy_sites(repo="/repo"):
    """(file, line, lint) reported by clippy's restriction lints on the bin target; None when clippy cannot run"""
    env = dict(os.environ)
    env["CARGO_TARGET_DIR"] = os.path.join(build.WORK, "target-clippy")
    env["CARGO_NET_OFFLINE"] = "true"
    env.pop("RUSTC_WORKSPACE_WRAPPER", None)
    args = ["cargo", "+nightly", "clippy", "--offline", "--bin", "breadlog", "--message-format=json", "--", "-A", "clippy::all"]
    for l in CLIPPY_LINTS:
        args += ["-W", "clippy::" + l]
    # force re-lint of the primary crate
    subprocess.run(["find", env["CARGO_TARGET_DIR"], "-path", "*fingerprint/breadlog-*", "-prune", "-exec", "rm", "-rf", "{}", "+"],
                   stdout=subprocess.DEVNULL, stderr=subprocess.DEVNULL)
    r = subprocess.run(args, cwd=repo, env=env, stdout=subprocess.PIPE, stderr=subprocess.PIPE, text=True)
    if r.returncode != 0:
        return None
    out = set()
    for line in r.stdout.splitlines():
        try:
            d = json.loads(line)
        except ValueError:
            continue
        if d.get("reason") != "compiler-message":
            continue
        m = d["message"]
        code = (m.get("code") or {}).get("code") or ""
        if not code.startswith("clippy::"):
            continue
        for s in m["spans"]:
            if s.get("is_primary"):
                # use the outermost expansion's call site
                sp = s
                while sp.get("expansion"):
                    sp = sp["expansion"]["span"]
                out.add((sp["file_name"], sp["line_start"], code.split("::")[1]))
    return out
