"""Helpers shared by the rule modules."""
import re
from . import cfg
from .facts import op_place, op_const, place_str, op_str
from .prov import Prov

RESULT_VARIANTS = {"Ok": 0, "Err": 1}
OPTION_VARIANTS = {"None": 0, "Some": 1}
POLL_VARIANTS = {"Ready": 0, "Pending": 1}


def single_def(body, l):
    ds = body.defs.get(l, [])
    if len(ds) == 1:
        return ds[0]
    return None


def trace_bool(body, op, depth=0):
    """Follow copies / moves / `!` of a boolean operand back to its producer.
    Returns (kind, payload, negated):
      ('place', place)    a field / projection load, e.g. ctx.check_mode
      ('call', Call)      result of a call
      ('bin', stmt)       comparison
      ('const', cdict)
      ('other', None)"""
    c = op_const(op)
    if c is not None:
        return ("const", c, False)
    p = op_place(op)
    if p is None:
        return ("other", None, False)
    if p["p"]:
        return ("place", p, False)
    if depth > 12:
        return ("other", None, False)
    d = single_def(body, p["l"])
    if d is None:
        return ("other", None, False)
    bb, kind, x = d
    if kind == "call":
        return ("call", x, False)
    rv = x["rv"]
    if rv["k"] == "use":
        return trace_bool(body, rv["op"], depth + 1)
    if rv["k"] == "un" and rv["op"] == "Not":
        k, pl, neg = trace_bool(body, rv["a"], depth + 1)
        return (k, pl, not neg)
    if rv["k"] == "bin":
        return ("bin", x, False)
    if rv["k"] == "discr":
        return ("discr", rv["place"], False)
    return ("other", None, False)


def bool_switch_targets(body, bb):
    """For `switch x [0: F] else T` on a bool returns (true_target, false_target) taking the
    traced negation into account is the caller's job; here raw: value!=0 -> otherwise."""
    t = body.term(bb)
    assert t["k"] == "switch"
    f = None
    for v, tgt in t["arms"]:
        if v == 0:
            f = tgt
    return (t["otherwise"], f)


def field_switches(body, field_names):
    """Switches whose discriminant is (a copy / negation of) a load of a field named in
    field_names. Yields (bb, when_true_target, when_false_target, place)."""
    out = []
    for bb in sorted(body.reachable_blocks()):
        t = body.term(bb)
        if t["k"] != "switch":
            continue
        kind, payload, neg = trace_bool(body, t["discr"])
        if kind != "place":
            continue
        names = [e.get("n") for e in payload["p"] if isinstance(e, dict) and "f" in e]
        if not names or names[-1] not in field_names:
            continue
        tt, ft = bool_switch_targets(body, bb)
        if ft is None:
            continue
        if neg:
            tt, ft = ft, tt
        out.append((bb, tt, ft, payload))
    return out


def dominated_region(body, head):
    """Blocks dominated by `head` (head included)."""
    dom = cfg.dominators(body)
    return {b for b in dom if head in dom[b]}


def enum_switch(body, bb):
    """For `switch discriminant(P)` returns (place P, {value: target}, otherwise) else None."""
    t = body.term(bb)
    if t["k"] != "switch":
        return None
    p = op_place(t["discr"])
    if p is None or p["p"]:
        return None
    d = single_def(body, p["l"])
    if d is None or d[1] != "assign" or d[2]["rv"]["k"] != "discr":
        return None
    return (d[2]["rv"]["place"], {v: tgt for v, tgt in t["arms"]}, t["otherwise"])


def ty_variants(ty):
    ty = ty.lstrip("&").replace("mut ", "")
    if ty.startswith("std::result::Result<") or ty.startswith("core::result::Result<"):
        return RESULT_VARIANTS
    if ty.startswith("std::option::Option<") or ty.startswith("core::option::Option<"):
        return OPTION_VARIANTS
    if ty.startswith("std::task::Poll<") or ty.startswith("core::task::Poll<"):
        return POLL_VARIANTS
    return None


def result_switches_of_call(body, prov, call_pred):
    """Switches on discriminant(P) where P's type is Result/Option and P's origin is a call
    selected by call_pred. Returns list of (bb, Call, variants dict, {value:target})."""
    out = []
    for bb in sorted(body.reachable_blocks()):
        es = enum_switch(body, bb)
        if es is None:
            continue
        place, arms, otherwise = es
        tyname = body.local_ty(place["l"]) if not place["p"] else None
        if tyname is None:
            continue
        var = ty_variants(tyname)
        if var is None or var is POLL_VARIANTS:
            continue
        org = prov.origins(place["l"])
        calls = [o[1] for o in org if o[0] == "call"]
        sel = [c for c in calls if call_pred(c)]
        if sel and len(sel) == len(calls):
            out.append((bb, sel[0], var, arms))
    return out


def assignments_to(body, local, within=None):
    """(bb, stmt) of assignments whose destination is exactly `local` (no projection)."""
    out = []
    for bb in sorted(body.reachable_blocks()):
        if within is not None and bb not in within:
            continue
        for st in body.blocks[bb]["stmts"]:
            if st["k"] == "assign" and st["dst"]["l"] == local and not st["dst"]["p"]:
                out.append((bb, st))
    return out


def const_field_of_agg(body, prov_unused, op, adt_suffix, field):
    """If `op` is (a move of) a local built by exactly one `Adt{..}` aggregate of a type ending
    with adt_suffix, return the operand of `field`, else None."""
    p = op_place(op)
    if p is None or p["p"]:
        return None
    d = single_def(body, p["l"])
    if d is None or d[1] != "assign":
        return None
    rv = d[2]["rv"]
    if rv["k"] == "use":
        return const_field_of_agg(body, None, rv["op"], adt_suffix, field)
    if rv["k"] != "agg" or rv["agg"] != "adt" or not rv["adt"].endswith(adt_suffix):
        return None
    if field in rv["fields"]:
        return rv["ops"][rv["fields"].index(field)]
    return None


def return_values(body):
    """The statements that produce the function's value: assignments to _0 in live blocks; when
    _0 is merely moved out of a temporary that the arms of a tail `match` / `if` assign
    (`_0 = move _t` with several assignments to `_t`), the assignments to `_t` are returned
    instead (with their own blocks), so that early-`return` style and tail-expression style look
    the same to the rules. A temporary that is also written by a call is left alone."""
    out = []
    for (bb, st) in assignments_to(body, 0):
        out.extend(_expand_ret(body, bb, st, 0))
    return out


def return_values_r(body):
    """return_values plus one synthetic statement for every `?` that leaves the function: the call
    `_0 = FromResidual::from_residual(r)` always yields Err (in a function returning Result) or None (Option)"""
    out = list(return_values(body))
    rty = body.local_ty(0)
    for c in body.calls:
        if c.dst["l"] == 0 and not c.dst["p"] and c.matches(r"from_residual$") and not c.local and c.bb in body.reachable_blocks():
            if rty.startswith(("std::result::Result<", "core::result::Result<")):
                rv = {"k": "agg", "agg": "adt", "adt": "std::result::Result", "variant": "Err", "variant_idx": 1, "ops": list(c.args), "fields": [], "synthetic": True}
            elif rty.startswith(("std::option::Option<", "core::option::Option<")):
                rv = {"k": "agg", "agg": "adt", "adt": "std::option::Option", "variant": "None", "variant_idx": 0, "ops": [], "fields": [], "synthetic": True}
            else:
                continue
            out.append((c.bb, {"k": "assign", "dst": {"l": 0, "p": []}, "rv": rv, "line": c.line}))
    return out


def _expand_ret(body, bb, st, depth):
    rv = st["rv"]
    if rv["k"] == "use" and depth < 4:
        p = op_place(rv["op"])
        if p is not None and not p["p"] and not (1 <= p["l"] <= body.arg_count):
            defs = body.defs.get(p["l"], [])
            nm = body.local_name(p["l"])
            if defs and all(k == "assign" for (_, k, _) in defs) and (nm is None or nm.startswith("__")):
                out = []
                for (dbb, _, d) in defs:
                    out.extend(_expand_ret(body, dbb, d, depth + 1))
                return out
    return [(bb, st)]


def describe_ret(body, st):
    from .facts import rv_str
    return rv_str(st["rv"])


def short(name, n=90):
    return name if len(name) <= n else name[: n - 3] + "..."


def call_chain(body, op, depth=0, maxdepth=40):
    """Follow the value behind `op` backwards through copies / refs and through the FIRST
    argument of every call (receiver chains like s.as_str().to_lowercase().trim()).
    Returns (list of Call objects nearest-first, root) where root is ('param', k) |
    ('upvar', place) | ('const', c) | ('local', l) | ('field', place)."""
    calls = []
    cur = op
    for _ in range(maxdepth):
        c = op_const(cur)
        if c is not None:
            return calls, ("const", c)
        p = op_place(cur)
        if p is None:
            return calls, ("other", None)
        l = p["l"]
        if body.kind.startswith(("closure", "coroutine")) and l == 1:
            return calls, ("upvar", p)
        ds = body.defs.get(l, [])
        if 1 <= l <= body.arg_count and not ds:
            return calls, ("param", l)
        if len(ds) != 1:
            return calls, ("local", l)
        bb, kind, d = ds[0]
        if kind == "call":
            calls.append(d)
            if not d.args:
                return calls, ("call0", d)
            cur = d.args[0]
            continue
        rv = d["rv"]
        fs = [e for e in p["p"] if e != "*"]
        if rv["k"] == "agg" and rv.get("agg") == "tuple" and fs and isinstance(fs[0], dict) and "f" in fs[0] and fs[0]["f"] < len(rv["ops"]):
            cur = rv["ops"][fs[0]["f"]]   # `t.k` where t = (a, b, ..): follow the k-th component
        elif rv["k"] in ("use", "cast"):
            cur = rv["op"]
            q = op_place(cur)
            if fs and q is not None and not q["p"]:
                cur = {"copy": {"l": q["l"], "p": p["p"]}}   # keep the projection across a plain copy
        elif rv["k"] in ("ref", "rawptr"):
            cur = {"copy": rv["place"]}
            if body.kind.startswith(("closure", "coroutine")) and rv["place"]["l"] == 1:
                return calls, ("upvar", rv["place"])
            if rv["place"]["p"] and any(isinstance(e, dict) and "f" in e for e in rv["place"]["p"]):
                # keep walking from the base local but remember the field
                cur = {"copy": {"l": rv["place"]["l"], "p": []}}
        else:
            return calls, ("local", l)
    return calls, ("other", None)


def loop_containing(body, bb):
    for comp in cfg.sccs(body):
        if bb in comp and (len(comp) > 1 or bb in body.succ[bb]):
            return comp
    return set()


def callee_consts(facts, fn_pat, const_suffix):
    """value of a `const NAME: &str` declared inside a function (exported as its own body)"""
    for b in facts.find(fn_pat + r"::" + const_suffix + r"$"):
        for (bb, st) in return_values(b):
            c = op_const(st["rv"].get("op")) if st["rv"]["k"] == "use" else None
            if c is not None and "str" in c:
                return c["str"]
    return None


def tuple_field_src(f, op):
    """`&(*_233.0)` where _233 = tuple{move _234}: return operand _234's source"""
    p = op_place(op)
    if p is None:
        return op
    d = single_def(f, p["l"])
    if d and d[1] == "assign" and d[2]["rv"]["k"] == "ref":
        base = d[2]["rv"]["place"]
        dd = single_def(f, base["l"])
        fs = [e["f"] for e in base["p"] if isinstance(e, dict) and "f" in e]
        if dd and dd[1] == "assign" and dd[2]["rv"]["k"] == "agg" and dd[2]["rv"]["agg"] == "tuple" and fs:
            return dd[2]["rv"]["ops"][fs[0]]
    return op




# ---------------------------------------------------------------------------------------
# fold recognition: explicit loops and the equivalent iterator adaptors

def closure_body_of(facts, body, op):
    """body of the closure literal passed as `op` (None when it is not a literal closure)"""
    p = op_place(op)
    if p is None:
        return None
    d = single_def(body, p["l"])
    if d and d[1] == "assign" and d[2]["rv"]["k"] == "agg" and d[2]["rv"].get("agg") == "closure":
        return facts.body(d[2]["rv"]["def"])
    return None


def _proj_field(body, op, depth=0):
    """(root param index, last field name/idx) of a projection chain `(*_k).f` behind op"""
    p = op_place(op)
    if p is None or depth > 6:
        return (None, None)
    fs = [e for e in p["p"] if isinstance(e, dict) and "f" in e]
    fld = (fs[-1].get("n") if fs[-1].get("n") is not None else str(fs[-1]["f"])) if fs else None
    l = p["l"]
    if 1 <= l <= body.arg_count and not body.defs.get(l):
        return (l, fld)
    d = single_def(body, l)
    if d and d[1] == "assign" and d[2]["rv"]["k"] in ("use",):
        r, f2 = _proj_field(body, d[2]["rv"]["op"], depth + 1)
        return (r, fld if fld is not None else f2)
    if d and d[1] == "assign" and d[2]["rv"]["k"] == "ref":
        r, f2 = _proj_field(body, {"copy": d[2]["rv"]["place"]}, depth + 1)
        return (r, fld if fld is not None else f2)
    return (None, fld)


def closure_projection(cb):
    """closure `|x| x.field` / `|x| *x` : returns ('field', name) / ('deref', None) / None"""
    if cb is None or cb.calls:
        return None
    rets = return_values(cb)
    if len(rets) != 1 or rets[0][1]["rv"]["k"] != "use":
        return None
    root, fld = _proj_field(cb, rets[0][1]["rv"]["op"])
    if root == 2:
        return ("field", fld) if fld is not None else ("deref", None)
    return None


def closure_add(cb):
    """closure `|acc, x| acc + x(.field)`: returns ('field', name)/('deref', None)/None"""
    if cb is None or cb.calls:
        return None
    adds = [st for bb in cb.reachable_blocks() for st in cb.blocks[bb]["stmts"]
            if st["k"] == "assign" and st["rv"]["k"] == "bin"]
    if len(adds) != 1 or adds[0]["rv"]["op"] not in ("Add", "AddWithOverflow"):
        return None
    ra, fa = _proj_field(cb, adds[0]["rv"]["a"])
    rb, fb = _proj_field(cb, adds[0]["rv"]["b"])
    if ra == 2 and fa is None and rb == 3:
        return ("field", fb) if fb is not None else ("deref", None)
    return None


def iterator_fold(facts, body, op):
    """Recognise the value behind `op` as an iterator-adaptor fold over a whole slice parameter.
    Returns dict(kind='sum'|'max'|'any', field=…, root=('param',k)|('upvar',…), init=int|None) or None."""
    calls, root = call_chain(body, op)
    if not calls:
        return None
    names = [c.name.split("::")[-1] for c in calls]
    plain = {"iter", "into_iter", "deref", "as_slice"}
    head = calls[0]
    if names[0] == "fold" and all(n in plain for n in names[1:]):
        k = closure_add(closure_body_of(facts, body, head.args[2])) if len(head.args) > 2 else None
        init = (op_const(head.args[1]) or {}).get("int")
        if k is not None:
            return {"kind": "sum", "field": k[1], "root": root, "init": init, "call": head}
    if names[0] == "sum" and len(names) >= 2:
        rest = names[1:]
        fld = None
        if rest[0] == "map":
            k = closure_projection(closure_body_of(facts, body, calls[1].args[1]))
            if k is None:
                return None
            fld = k[1]
            rest = rest[1:]
        if all(n in plain | {"copied", "cloned"} for n in rest):
            return {"kind": "sum", "field": fld, "root": root, "init": 0, "call": head}
    if names[0] == "any" and all(n in plain for n in names[1:]):
        k = closure_projection(closure_body_of(facts, body, head.args[1])) if len(head.args) > 1 else None
        if k is not None:
            return {"kind": "any", "field": k[1], "root": root, "init": 0, "call": head}
    if names[:2] == ["unwrap_or", "max"] and len(names) >= 3:
        init = (op_const(head.args[1]) or {}).get("int")
        rest = names[2:]
        fld = None
        if rest[0] == "map":
            k = closure_projection(closure_body_of(facts, body, calls[2].args[1]))
            if k is None:
                return None
            fld = k[1]
            rest = rest[1:]
        if all(n in plain | {"copied", "cloned"} for n in rest):
            return {"kind": "max", "field": fld, "root": root, "init": init, "call": head}
    return None


def path_parts(body, op, depth=0):
    """Operands a filesystem path is assembled from, in order, for the idioms
    Path::new(a).join(b) / PathBuf::from(a) + push(b) / [a, b].iter().collect::<PathBuf>() /
    temp_dir() + push(x). Returns a list of operands (leaf components) or None when the shape is
    not one of these."""
    if depth > 8:
        return None
    p = op_place(op)
    if p is None:
        return [op]
    ds = body.defs.get(p["l"], [])
    if len(ds) != 1:
        return [op]
    bb, kind, d = ds[0]
    if kind == "assign":
        rv = d["rv"]
        if rv["k"] in ("use",):
            return path_parts(body, rv["op"], depth + 1)
        if rv["k"] == "ref" and not [e for e in rv["place"]["p"] if e != "*"]:
            return path_parts(body, {"copy": {"l": rv["place"]["l"], "p": []}}, depth + 1)
        return [op]
    c = d
    if c.matches(r"^std::path::Path::join$"):
        base = path_parts(body, c.args[0], depth + 1)
        return None if base is None else base + [c.args[1]]
    if c.matches(r"^std::path::Path::new$|^std::path::PathBuf::from$|PathBuf as std::convert::From<.*>>::from$|::from$") and len(c.args) == 1 and ("Path" in c.func.get("full", "")):
        parts = [c.args[0]]
        # later push() calls on this buffer
        for m in body.calls:
            if m.matches(r"^std::path::PathBuf::push$") and _base_local(body, m.args[0]) == p["l"]:
                parts.append(m.args[1])
        return parts
    if c.matches(r"::deref$|::as_path$|::to_path_buf$|::as_ref$|::clone$") and c.args:
        return path_parts(body, c.args[0], depth + 1)
    if c.matches(r"::collect$") and "PathBuf" in c.func.get("full", ""):
        chain, root = call_chain(body, c.args[0])
        # the array literal at the bottom of .iter()
        cur = chain[-1].args[0] if chain else c.args[0]
        for _ in range(6):
            q = op_place(cur)
            if q is None:
                break
            dd = single_def(body, q["l"])
            if dd and dd[1] == "assign" and dd[2]["rv"]["k"] == "agg" and dd[2]["rv"].get("agg") == "array":
                return list(dd[2]["rv"]["ops"])
            if dd and dd[1] == "assign" and dd[2]["rv"]["k"] in ("use", "cast"):
                cur = dd[2]["rv"]["op"]
            elif dd and dd[1] == "assign" and dd[2]["rv"]["k"] == "ref":
                cur = {"copy": {"l": dd[2]["rv"]["place"]["l"], "p": []}}
            else:
                break
        return None
    if c.matches(r"^std::env::temp_dir$"):
        parts = [op]
        for m in body.calls:
            if m.matches(r"^std::path::PathBuf::push$") and _base_local(body, m.args[0]) == p["l"]:
                parts.append(m.args[1])
        return parts
    return [op]


def _base_local(body, op, depth=0):
    p = op_place(op)
    if p is None or depth > 6:
        return None
    d = single_def(body, p["l"])
    if d and d[1] == "assign" and d[2]["rv"]["k"] == "ref" and not [e for e in d[2]["rv"]["place"]["p"] if e != "*"]:
        return _base_local(body, {"copy": {"l": d[2]["rv"]["place"]["l"], "p": []}}, depth + 1) if single_def(body, d[2]["rv"]["place"]["l"]) and single_def(body, d[2]["rv"]["place"]["l"])[1] == "assign" and single_def(body, d[2]["rv"]["place"]["l"])[2]["rv"]["k"] == "ref" else d[2]["rv"]["place"]["l"]
    if d and d[1] == "assign" and d[2]["rv"]["k"] == "use":
        return _base_local(body, d[2]["rv"]["op"], depth + 1)
    return p["l"]


def value_sites(body, op, steps=(), depth=0, seen=None):
    """The statements that can produce the value read by operand `op` (projected by `steps`): walks copies,
    references, struct / tuple / enum aggregates (selecting the operand the projection names) and partial
    writes `x.f = v`. Returns a list of (bb, stmt-or-Call); a stmt leaf is an assignment whose right-hand
    side is an aggregate / constant / computation, a Call leaf is a call whose result is the value."""
    from .prov import Prov
    seen = seen if seen is not None else set()
    out = []
    if op_const(op) is not None:
        return out
    p = op_place(op)
    if p is None or depth > 10:
        return out
    ps, complete = Prov._steps(p)
    if not complete:
        return out
    steps = tuple(ps) + tuple(steps)
    key = (p["l"], steps)
    if key in seen:
        return out
    seen.add(key)
    for (bb, kind, d) in body.defs.get(p["l"], []):
        if kind == "call":
            out.append((bb, d))
            continue
        dst, rv = d["dst"], d["rv"]
        dsteps, dcomplete = Prov._steps(dst)
        rest = steps
        if [e for e in dst["p"] if e != "*"]:
            n = min(len(dsteps), len(steps))
            if not dcomplete or dsteps[:n] != steps[:n] or len(dsteps) > len(steps):
                if dcomplete and dsteps[:n] == steps[:n] and len(dsteps) > len(steps):
                    out.append((bb, d))   # a deeper field of the value is written
                continue
            rest = steps[len(dsteps):]
        k = rv["k"]
        if k in ("use", "cast"):
            if op_const(rv["op"]) is not None:
                out.append((bb, d))
            else:
                out.extend(value_sites(body, rv["op"], rest, depth + 1, seen))
        elif k in ("ref", "rawptr"):
            out.extend(value_sites(body, {"copy": rv["place"]}, rest, depth + 1, seen))
        elif k == "agg" and rest and rv.get("agg") in ("adt", "tuple"):
            sel = rest[0]
            if sel[0] == "variant":
                if rv.get("variant_idx") == sel[1] and sel[2] < len(rv["ops"]):
                    o = rv["ops"][sel[2]]
                    out.extend([(bb, d)] if op_const(o) is not None else value_sites(body, o, rest[1:], depth + 1, seen))
            elif sel[1] < len(rv["ops"]):
                o = rv["ops"][sel[1]]
                out.extend([(bb, d)] if op_const(o) is not None else value_sites(body, o, rest[1:], depth + 1, seen))
        else:
            out.append((bb, d))
    return out


def only_err_returns(body, start, avoid=()):
    """every return reachable on a feasible path from block `start` returns Err (decided on the tracked shape of
    the returned value: aggregates, `?`, map_err / ok_or ... keep it known)"""
    from . import cfg
    if not body.local_ty(0).startswith(("std::result::Result<", "core::result::Result<")):
        return False
    rs = cfg.return_shapes(body, start, avoid)
    return bool(rs) and all(sh is not None and sh[0] == 1 for (_bb, sh) in rs)


def only_none_returns(body, start, avoid=()):
    from . import cfg
    if not body.local_ty(0).startswith(("std::option::Option<", "core::option::Option<")):
        return False
    rs = cfg.return_shapes(body, start, avoid)
    return bool(rs) and all(sh is not None and sh[0] == 0 for (_bb, sh) in rs)


def zero_tests(body, prov, origin_pred):
    """Branches that test an integer for zero, where the integer's origins satisfy origin_pred(origin):
    `x > 0`, `x == 0`, `x != 0`, `x >= 1`, `x < 1`, `x <= 0` (either way round, possibly negated) and the
    integer-pattern form `match x { 0 => .., _ => .. }`. Returns [(switch bb, zero_arm, nonzero_arm, description)]."""
    out = []
    for bb in sorted(body.reachable_blocks()):
        t = body.term(bb)
        if t["k"] != "switch":
            continue
        k, pl, neg = trace_bool(body, t["discr"])
        if k == "bin":
            rv = pl["rv"]
            ka, kb = op_const(rv["a"]), op_const(rv["b"])
            if kb is not None and ka is None:
                x, c, op = rv["a"], kb.get("int"), rv["op"]
            elif ka is not None and kb is None:
                x, c = rv["b"], ka.get("int")
                op = {"Gt": "Lt", "Lt": "Gt", "Ge": "Le", "Le": "Ge"}.get(rv["op"], rv["op"])
            else:
                continue
            if not any(origin_pred(o) for o in prov.origins_op(x)):
                continue
            tt, ft = bool_switch_targets(body, bb)
            if neg:
                tt, ft = ft, tt
            form = (op, c)
            if form in (("Gt", 0), ("Ne", 0), ("Ge", 1)):
                out.append((bb, ft, tt, "%s %s" % form))
            elif form in (("Eq", 0), ("Lt", 1), ("Le", 0)):
                out.append((bb, tt, ft, "%s %s" % form))
            else:
                out.append((bb, None, None, "%s %s" % form))
        elif k in ("place", "other", "call") or k is None:
            # `match x { 0 => A, _ => B }`: a switch on the integer itself
            p = op_place(t["discr"])
            if p is None:
                continue
            ty = body.place_ty(p) or ""
            if ty not in ("u32", "usize", "u64", "u16", "u8", "i32", "i64", "isize"):
                continue
            if not any(origin_pred(o) for o in prov.origins_op(t["discr"])):
                continue
            arms = {v: tg for v, tg in t["arms"]}
            if set(arms) == {0}:
                out.append((bb, arms[0], t["otherwise"], "match on 0"))
            else:
                out.append((bb, None, None, "match on %s" % sorted(arms)))
    return out
