"""Grammar rules by role. The rules' *names* are the maintainers' business: `file` may become `source_file`,
`macro_args` `macro_arguments`. The role of each rule is read off the grammar's structure (the rule that spans
SOI..EOI, the alternative of its scan loop, the sequence name `!` arguments, the optional argument that begins
with `target:`, the `;`-terminated key-value list, ...) and both the grammar AST and the `Rule` enum in the MIR
facts are renamed to the canonical role names before any rule looks at them. When the structure is not
recognised nothing is renamed (and the rules that need the missing anchor report it)."""
from .grammar import flatten

CANON = ["file", "log_macro", "macro_name", "macro_args", "target_arg", "kvp_args", "kvp_key", "kvp_value", "kvp_modifiers",
         "string_literal", "string_value", "rust_identifier"]


def _seq(g, name):
    return flatten(g.rules[name]["expr"], "seq")


def _idents(e):
    out = []
    if e["k"] == "ident":
        out.append(e["v"])
    for k in ("a", "b", "e"):
        if k in e and isinstance(e[k], dict):
            out.extend(_idents(e[k]))
    return out


def discover(g):
    """role -> actual rule name (only roles that could be identified)"""
    R = {}
    rules = g.rules
    for n in rules:
        s = _seq(g, n)
        if len(s) >= 3 and s[0] == {"k": "ident", "v": "SOI"} and s[-1] == {"k": "ident", "v": "EOI"}:
            R["file"] = n
            mids = [x for x in _idents({"k": "seq", "a": s[1], "b": {"k": "str", "v": ""}}) if x in rules]
            if len(mids) == 1:
                R["log_macro"] = mids[0]
    lm = R.get("log_macro")
    if lm:
        s = _seq(g, lm)
        ids = [x["v"] for x in s if x["k"] == "ident" and x["v"] in rules]
        bang = [i for i, x in enumerate(s) if x == {"k": "str", "v": "!"}]
        if len(ids) == 2 and bang:
            R["macro_name"], R["macro_args"] = ids[0], ids[1]
    ma = R.get("macro_args")
    if ma:
        s = _seq(g, ma)
        opts = [x["e"]["v"] for x in s if x["k"] == "opt" and x["e"]["k"] == "ident" and x["e"]["v"] in rules]
        last = s[-1]["v"] if s and s[-1]["k"] == "ident" and s[-1]["v"] in rules else None
        for o in opts:
            so = _seq(g, o)
            if so and (so[0] == {"k": "str", "v": "target:"} or (len(so) > 1 and so[0] == {"k": "str", "v": "target"} and so[1] == {"k": "str", "v": ":"})):
                R["target_arg"] = o
            elif so and so[-1] == {"k": "str", "v": ";"}:
                R["kvp_args"] = o
        if last:
            R["string_literal"] = last
            sl = _seq(g, last)
            ids = [x["v"] for x in sl if x["k"] == "ident" and x["v"] in rules]
            if len(ids) == 1 and sl[0] == {"k": "str", "v": '"'}:
                R["string_value"] = ids[0]
    ka = R.get("kvp_args")
    if ka:
        e = g.inline(g.rules[ka]["expr"])     # a silent per-pair helper rule is looked through
        s = flatten(e, "seq")
        if s and s[0]["k"] in ("rep1", "rep"):
            inner = flatten(s[0]["e"], "seq")
            if inner and inner[0]["k"] == "ident" and inner[0]["v"] in rules:
                R["kvp_key"] = inner[0]["v"]
                ke = g.rules[inner[0]["v"]]["expr"]
                if ke["k"] == "ident" and ke["v"] in rules:
                    R["rust_identifier"] = ke["v"]
            for x in inner[1:]:
                if x["k"] == "opt":
                    xs = flatten(x["e"], "seq")
                    if len(xs) == 2 and xs[0] == {"k": "str", "v": "="} and xs[1]["k"] == "ident" and xs[1]["v"] in rules:
                        R["kvp_value"] = xs[1]["v"]
        # the modifiers rule is silent (inlined above): find it in the un-inlined expression
        raw = [x for x in _idents(g.rules[ka]["expr"]) if x in rules]
        seen = set()
        while raw:
            x = raw.pop()
            if x in seen:
                continue
            seen.add(x)
            sx = _seq(g, x)
            if sx and sx[0] == {"k": "str", "v": ":"}:
                R["kvp_modifiers"] = x
            elif g.rules[x]["ty"] == "silent":
                raw.extend(y for y in _idents(g.rules[x]["expr"]) if y in rules)
    return R


def _rename_expr(e, m):
    if e["k"] == "ident" and e["v"] in m:
        e["v"] = m[e["v"]]
    for k in ("a", "b", "e"):
        if k in e and isinstance(e[k], dict):
            _rename_expr(e[k], m)


def canonicalise(g, facts_list):
    """rename grammar rules and the Rule enum's variants to the canonical role names; returns the mapping used"""
    if getattr(g, "error", None) or not g.rules:
        return {}
    roles = discover(g)
    m = {actual: role for role, actual in roles.items() if actual != role}
    if not m:
        return {}
    # never rename onto a name that some other rule already has
    for actual, role in list(m.items()):
        if role in g.rules and role not in m:
            return {}
    for r in g.j["rules"]:
        if r["name"] in m:
            r["name"] = m[r["name"]]
        _rename_expr(r["expr"], m)
    g.rules = {r["name"]: r for r in g.j["rules"]}
    g.renamed = dict(m)
    for facts in facts_list:
        for p, a in facts.adts.items():
            if p.endswith("rust_parser::Rule"):
                for v in a["variants"]:
                    if v["name"] in m:
                        v["name"] = m[v["name"]]
        seen = set()
        for b in list(facts.bodies) + list(getattr(facts, "inlined", {}).values()):
            if id(b) in seen:
                continue
            seen.add(id(b))
            for blk in b.blocks:
                for st in blk["stmts"]:
                    if st["k"] == "assign" and st["rv"]["k"] == "agg" and st["rv"].get("adt", "").endswith("rust_parser::Rule") and st["rv"].get("variant") in m:
                        st["rv"]["variant"] = m[st["rv"]["variant"]]
    return m
