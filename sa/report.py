"""Result collection, known findings, evidence and replay files."""
import json
import os
import time

VERIF = os.path.dirname(os.path.dirname(os.path.abspath(__file__)))


class Ctx:
    """Handed to every rule module: facts + result sink."""

    def __init__(self, prop, tier, facts_bin, facts_lib, grammar, seed=0, extra=None):
        self.prop = prop
        self.tier = tier
        self.bin = facts_bin
        self.lib = facts_lib
        self.grammar = grammar
        self.seed = seed
        self.extra = extra or {}
        self.results = []  # dicts: rule, key, ok(bool), msg, where, detail
        self.assumptions = []
        self.notes = []
        self.t0 = time.time()

    # an obligation that was evaluated and holds
    def ok(self, rule, what, where="", detail=None):
        self.results.append({"rule": rule, "ok": True, "what": what, "where": where, "detail": detail})

    # an obligation that fails. `key` must identify the construct without line numbers.
    def bad(self, rule, key, msg, where="", detail=None):
        self.results.append({"rule": rule, "ok": False, "key": "%s|%s" % (rule, key), "what": msg,
                             "where": where, "detail": detail})

    def check(self, cond, rule, key, what, where="", detail=None):
        if cond:
            self.ok(rule, what, where, detail)
        else:
            self.bad(rule, key, what, where, detail)
        return cond

    def assume(self, text):
        if text not in self.assumptions:
            self.assumptions.append(text)

    def note(self, text):
        self.notes.append(text)


def load_known():
    p = os.path.join(VERIF, "known_findings.json")
    if not os.path.exists(p):
        return []
    with open(p) as f:
        return json.load(f).get("findings", [])


def finish(ctx, explanation, level="other", technique_rule="", trusted=None, extra_cov=None):
    """Apply known findings, write evidence + replay, print verdict lines. Returns exit code."""
    known = [k for k in load_known() if k.get("property") == ctx.prop and k.get("status") == "known"]
    known_keys = {k["key"]: k for k in known}
    viol = []
    kf = []
    for r in ctx.results:
        if r["ok"]:
            continue
        if r["key"] in known_keys:
            kf.append((r, known_keys[r["key"]]))
        else:
            viol.append(r)
    evdir = os.environ.get("VERIF_EVIDENCE_DIR") or os.path.join(VERIF, "evidence")
    rpdir = os.environ.get("VERIF_REPLAY_DIR") or os.path.join(VERIF, "replay")
    os.makedirs(evdir, exist_ok=True)
    os.makedirs(rpdir, exist_ok=True)
    n_eval = len(ctx.results)
    distinct = len({(r["rule"], r.get("key") or r["what"], r["where"]) for r in ctx.results})
    samples = []
    for r in ctx.results[:400]:
        samples.append({"rule": r["rule"], "verdict": "holds" if r["ok"] else ("known-finding" if r.get("key") in known_keys else "VIOLATION"),
                        "obligation": r["what"], "where": r["where"]})
    cov = {
        "explanation": explanation,
        "evaluations": n_eval,
        "distinct_nontrivial": distinct,
        "rule": technique_rule or "one evaluation = one rule instance (obligation) decided on a construct of /repo's current source; "
                "distinct = distinct (rule, construct, location) triples; every instance names the file:line it was decided on",
        "obligations": n_eval,
        "discharged": sum(1 for r in ctx.results if r["ok"]),
        "samples": samples,
        "trusted_base": trusted or [],
        "known_findings_matched": [k["key"] for (_, k) in kf],
        "notes": ctx.notes,
    }
    if extra_cov:
        cov.update(extra_cov)
    ev = {
        "property_id": ctx.prop,
        "tier": ctx.tier,
        "seed": ctx.seed,
        "level": level,
        "coverage": cov,
        "assumptions": ctx.assumptions,
        "wall_s": round(time.time() - ctx.t0, 3),
        "violations": len(viol),
    }
    with open(os.path.join(evdir, "%s.json" % ctx.prop), "w") as f:
        json.dump(ev, f, indent=1)
    for (r, k) in kf:
        print("KNOWN-FINDING: property=%s %s [%s] at %s" % (ctx.prop, k.get("what", r["what"]), r["key"], r["where"]))
    # known entries that no longer match anything are only noted (the defect may have been fixed)
    matched = {k["key"] for (_, k) in kf}
    for k in known:
        if k["key"] not in matched:
            print("note: known finding not observed on this tree: %s" % k["key"])
    code = 0
    for i, r in enumerate(viol):
        rp = os.path.join(rpdir, "%s.%s.%d.json" % (ctx.prop, r["rule"].replace("/", "_"), i))
        with open(rp, "w") as f:
            json.dump({"property": ctx.prop, "rule": r["rule"], "key": r["key"], "what": r["what"],
                       "where": r["where"], "detail": r["detail"]}, f, indent=1, default=str)
        print("  rule %s FAILED at %s: %s" % (r["rule"], r["where"], r["what"]))
        if r.get("detail"):
            print("    detail: %s" % (json.dumps(r["detail"], default=str)[:600]))
        print("VIOLATION property=%s replay=%s" % (ctx.prop, rp))
        code = 1
    print("%s %s: %d rule instances, %d hold, %d known findings, %d violations (%.1fs)" % (
        ctx.prop, ctx.tier, n_eval, cov["discharged"], len(kf), len(viol), time.time() - ctx.t0))
    return code
