"""Decoder for core::fmt::Arguments templates (encoding documented in library/core/src/fmt/mod.rs)."""


def decode(bs):
    """bytes list -> list of ('lit', str) | ('arg', {'default': bool, 'byte': n}); None if undecodable"""
    out = []
    i = 0
    n = len(bs)
    try:
        while True:
            if i >= n:
                return None  # missing terminator
            b = bs[i]
            i += 1
            if b == 0:
                return out if i == n else None
            if b < 0x80:
                out.append(("lit", bytes(bs[i:i + b]).decode("utf-8")))
                i += b
            elif b == 0x80:
                ln = bs[i] | (bs[i + 1] << 8)
                i += 2
                out.append(("lit", bytes(bs[i:i + ln]).decode("utf-8")))
                i += ln
            elif b == 0xC0:
                out.append(("arg", {"default": True, "byte": b}))
            elif b > 0xC0:
                if b & 1:
                    i += 4
                if b & 2:
                    i += 2
                if b & 4:
                    i += 2
                if b & 8:
                    i += 2
                out.append(("arg", {"default": False, "byte": b}))
            else:
                return None
    except (IndexError, UnicodeDecodeError):
        return None


def template_of_call(call):
    """for a call to fmt::Arguments::new / from_str return the decoded pieces (or None)"""
    from .facts import op_const, op_place
    from .common import single_def
    nm = call.name
    if nm.endswith("::from_str"):
        c = _const_behind(call.body, call.args[0])
        if c is not None and "str" in c:
            return [("lit", c["str"])]
        return None
    if "Arguments" in nm and "::new" in nm:
        c = _const_behind(call.body, call.args[0])
        if c is not None and "bytes" in c:
            return decode(list(c["bytes"]))
        if c is not None and "str" in c:
            return decode(list(c["str"].encode("utf-8")))
        if c is not None and c.get("text", "").startswith('b"'):
            bs = parse_byte_literal(c["text"])
            return decode(bs) if bs is not None else None
    return None


def parse_byte_literal(text):
    """Rust byte-string literal as printed by rustc (b"...") -> list of ints"""
    if not (text.startswith('b"') and text.endswith('"')):
        return None
    body = text[2:-1]
    out = []
    i = 0
    simple = {"n": 10, "r": 13, "t": 9, "\\": 92, "0": 0, '"': 34, "'": 39}
    while i < len(body):
        ch = body[i]
        if ch == "\\":
            nx = body[i + 1]
            if nx == "x":
                out.append(int(body[i + 2:i + 4], 16))
                i += 4
            elif nx in simple:
                out.append(simple[nx])
                i += 2
            else:
                return None
        else:
            out.extend(ch.encode("utf-8"))
            i += 1
    return out


def _const_behind(body, op, depth=0):
    from .facts import op_const, op_place
    from .common import single_def
    c = op_const(op)
    if c is not None:
        return c
    p = op_place(op)
    if p is None or depth > 6:
        return None
    d = single_def(body, p["l"])
    if d is None or d[1] != "assign":
        return None
    rv = d[2]["rv"]
    if rv["k"] == "use":
        return _const_behind(body, rv["op"], depth + 1)
    if rv["k"] == "ref":
        return _const_behind(body, {"copy": {"l": rv["place"]["l"], "p": []}}, depth + 1)
    return None
