"""Attributes of the pest grammar computed from its AST (tools/stable/grammarfacts).

No text is ever matched against the grammar: these are the classic fixpoints (nullable,
FIRST, vocabulary, produced children, dependency cycles) plus shape queries."""
import json
import subprocess
from . import build

BUILTIN_CLASSES = {"ANY", "XID_START", "XID_CONTINUE", "ASCII_DIGIT", "ASCII_ALPHA", "ASCII_ALPHANUMERIC",
                   "ASCII_HEX_DIGIT", "NEWLINE", "ASCII"}
ZERO_WIDTH = {"SOI", "EOI"}


def flatten(e, kind):
    """flatten nested binary seq / choice"""
    if e["k"] == kind:
        return flatten(e["a"], kind) + flatten(e["b"], kind)
    return [e]


class Grammar:
    def __init__(self, j):
        self.j = j
        self.rules = {r["name"]: r for r in j["rules"]}
        self._nullable = {}

    @staticmethod
    def load(path):
        build.ensure_tools()
        r = subprocess.run([build.GRAMMARFACTS, path], stdout=subprocess.PIPE, stderr=subprocess.PIPE, text=True)
        if r.returncode != 0:
            g = Grammar({"file": path, "rules": []})
            g.error = r.stderr.strip()
            return g
        g = Grammar(json.loads(r.stdout))
        g.error = None
        return g

    def ty(self, name):
        return self.rules[name]["ty"] if name in self.rules else None

    def expr(self, name):
        return self.rules[name]["expr"]

    # ---- nullable: can match without consuming input --------------------------------
    def nullable(self, e, _stack=()):
        k = e["k"]
        if k in ("str", "insens"):
            return e["v"] == ""
        if k == "range":
            return False
        if k == "ident":
            v = e["v"]
            if v in ZERO_WIDTH:
                return True
            if v in self.rules:
                if v in _stack:
                    return False
                return self.nullable(self.rules[v]["expr"], _stack + (v,))
            return False
        if k in ("pos", "neg"):
            return True
        if k == "seq":
            return self.nullable(e["a"], _stack) and self.nullable(e["b"], _stack)
        if k == "choice":
            return self.nullable(e["a"], _stack) or self.nullable(e["b"], _stack)
        if k in ("opt", "rep"):
            return True
        if k == "rep1":
            return self.nullable(e["e"], _stack)
        if k == "repn":
            return e["min"] == 0 or self.nullable(e["e"], _stack)
        if k == "push":
            return self.nullable(e["e"], _stack)
        return False

    # ---- can succeed when no input is left -------------------------------------------
    def eoi_ok(self, e, _stack=()):
        k = e["k"]
        if k in ("str", "insens"):
            return e["v"] == ""
        if k == "range":
            return False
        if k == "ident":
            v = e["v"]
            if v == "EOI":
                return True
            if v == "SOI":
                return False  # only for empty input; irrelevant here
            if v in self.rules:
                if v in _stack:
                    return False
                return self.eoi_ok(self.rules[v]["expr"], _stack + (v,))
            return False
        if k == "neg":
            # !X succeeds at end of input iff X cannot succeed there
            return not self.eoi_ok(e["e"], _stack)
        if k == "pos":
            return self.eoi_ok(e["e"], _stack)
        if k == "seq":
            return self.eoi_ok(e["a"], _stack) and self.eoi_ok(e["b"], _stack)
        if k == "choice":
            return self.eoi_ok(e["a"], _stack) or self.eoi_ok(e["b"], _stack)
        if k in ("opt", "rep"):
            return True
        if k == "rep1":
            return self.eoi_ok(e["e"], _stack)
        if k == "repn":
            return e["min"] == 0 or self.eoi_ok(e["e"], _stack)
        if k == "push":
            return self.eoi_ok(e["e"], _stack)
        return False

    # ---- FIRST: first characters / classes an expression can start with -----------------
    def first(self, e, _stack=()):
        """set of ('chr', c) / ('class', NAME) / ('range', a, b); predicates contribute nothing"""
        k = e["k"]
        if k in ("str", "insens"):
            return {("chr", e["v"][0])} if e["v"] else set()
        if k == "range":
            return {("range", e["a"], e["b"])}
        if k == "ident":
            v = e["v"]
            if v in ZERO_WIDTH:
                return set()
            if v in self.rules:
                if v in _stack:
                    return set()
                return self.first(self.rules[v]["expr"], _stack + (v,))
            return {("class", v)}
        if k in ("pos", "neg"):
            return set()
        if k == "seq":
            out = set()
            for x in flatten(e, "seq"):
                out |= self.first(x, _stack)
                if not self.nullable(x):
                    break
            return out
        if k == "choice":
            return self.first(e["a"], _stack) | self.first(e["b"], _stack)
        if k in ("opt", "rep", "rep1", "repn", "push"):
            return self.first(e["e"], _stack)
        return set()

    # ---- vocabulary: all string terminals reachable ---------------------------------
    def vocab(self, e, _seen=None):
        _seen = _seen if _seen is not None else set()
        k = e["k"]
        if k in ("str", "insens"):
            return {e["v"]}
        if k == "ident":
            v = e["v"]
            if v in self.rules and v not in _seen:
                _seen.add(v)
                return self.vocab(self.rules[v]["expr"], _seen)
            return set()
        out = set()
        for key in ("a", "b", "e"):
            if key in e and isinstance(e[key], dict):
                out |= self.vocab(e[key], _seen)
        return out

    def idents(self, e, follow_silent=False, _seen=None):
        """rule / builtin names referenced (optionally looking through silent rules)"""
        _seen = _seen if _seen is not None else set()
        k = e["k"]
        if k == "ident":
            v = e["v"]
            out = {v}
            if follow_silent and v in self.rules and self.rules[v]["ty"] == "silent" and v not in _seen:
                _seen.add(v)
                out |= self.idents(self.rules[v]["expr"], True, _seen)
            return out
        out = set()
        for key in ("a", "b", "e"):
            if key in e and isinstance(e[key], dict):
                out |= self.idents(e[key], follow_silent, _seen)
        return out

    def produces(self, name):
        """non-silent rules (and EOI) that can appear as direct children of `name`'s pair"""
        out = set()
        seen = set()

        def walk(e):
            k = e["k"]
            if k == "ident":
                v = e["v"]
                if v == "EOI":
                    out.add("EOI")
                elif v in self.rules:
                    if self.rules[v]["ty"] == "silent":
                        if v not in seen:
                            seen.add(v)
                            walk(self.rules[v]["expr"])
                    else:
                        out.add(v)
                return
            if k in ("pos", "neg"):
                return  # predicates produce no pairs
            for key in ("a", "b", "e"):
                if key in e and isinstance(e[key], dict):
                    walk(e[key])

        if self.rules[name]["ty"] == "atomic":
            return set()  # @ rules produce no inner pairs
        walk(self.rules[name]["expr"])
        return out

    def deps(self):
        return {n: {i for i in self.idents(r["expr"]) if i in self.rules} for n, r in self.rules.items()}

    def recursive_rules(self):
        d = self.deps()
        out = set()
        for n in d:
            seen = set()
            st = list(d[n])
            while st:
                x = st.pop()
                if x == n:
                    out.add(n)
                    break
                if x in seen:
                    continue
                seen.add(x)
                st.extend(d.get(x, ()))
        return out

    def inline(self, e, _depth=0):
        """replace references to SILENT rules by their expressions (a silent rule produces no pair, so
        factoring an expression into one does not change what is matched or produced)"""
        if _depth > 12:
            return e
        k = e["k"]
        if k == "ident":
            v = e["v"]
            if v in self.rules and self.rules[v]["ty"] == "silent" and v not in ("WHITESPACE", "COMMENT"):
                return self.inline(self.rules[v]["expr"], _depth + 1)
            return e
        out = dict(e)
        for key in ("a", "b", "e"):
            if key in e and isinstance(e[key], dict):
                out[key] = self.inline(e[key], _depth + 1)
        return out

    def seq_of(self, name):
        return flatten(self.inline(self.rules[name]["expr"]), "seq")

    def choices_of(self, e):
        return flatten(self.inline(e), "choice")

    def lexical(self, name, _stack=()):
        """rule is built from character-level terminals only (no reference to non-lexical rules)"""
        if name in _stack:
            return True
        e = self.rules[name]["expr"]
        for i in self.idents(e):
            if i in self.rules:
                if not self.lexical(i, _stack + (name,)):
                    return False
        return True
