"""Symbolic evaluation of a text-building function (the token renderer).

For a function that returns a `String` assembled from a few sources, compute — under an assumption about which of
its `Option` fields are `None` — the sequence of pieces of the returned text on every feasible path:
`String::new` + `push_str`, `format!`, `[..].concat()` / `join`, `unwrap_or("")` / `unwrap_or_default()`,
conversions. Nothing is executed: the values are the abstract pieces below.

    ('text', (piece, ..))     piece = 'lit:<s>' | 'number' | <field name>
    ('opt', field)            an Option whose payload is the text of `field`
    ('num',)                  the numeric parameter
    ('arg', value)            a fmt::Argument (Display) of value
    ('arr', [values])         array / slice
    ('tuple', [values])
    ('ref', local)            reference to a local (for `&mut buf`)
    ('bool', b) / ('discr', field)
    None                      unknown
"""
import re
from .facts import op_place, op_const
from .fmtdec import template_of_call

_SAME = r"(::to_owned|String::from|::into|::as_str|::deref|::deref_mut|::as_ref|::borrow|::clone|::as_deref|::cloned|::copied|::as_mut|hint::must_use|::as_mut_str|::to_str|::borrow_mut)$"


class Unknown(Exception):
    pass


def evaluate(body, field_names, num_param, assume, max_paths=256):
    """field_names: {struct field name: piece name}; assume: {piece name: True if that Option is None}.
    Returns (set of result tuples, notes) — a result tuple is the normalised piece sequence of `_0`; None inside the
    set means some path returned a value that could not be followed."""
    results = set()
    notes = []
    paths = [0]

    def text(v):
        """pieces of a value used as text"""
        if v is None:
            raise Unknown("unknown value used as text")
        k = v[0]
        if k == "text":
            return tuple(v[1])
        if k == "num":
            return ("number",)
        if k == "arg":
            return text(v[1])
        if k == "opt":
            raise Unknown("Option used as text")
        raise Unknown("%s used as text" % k)

    def place_val(env, place):
        v = env.get(place["l"])
        for e in place["p"]:
            if e == "deref" or (isinstance(e, dict) and e.get("deref")) or e == "*":
                v = through_ref(env, v)
                continue
            if isinstance(e, dict) and "downcast" in e:
                continue
            if isinstance(e, dict) and "f" in e:
                n = e.get("n")
                if n in field_names:
                    v = ("opt", field_names[n])
                elif v is not None and v[0] == "tuple" and e["f"] < len(v[1]):
                    v = v[1][e["f"]]
                elif v is not None and v[0] == "opt" and e["f"] == 0:
                    v = ("text", (v[1],))       # payload of Some(..)
                elif v is not None and v[0] == "arr":
                    v = None
                else:
                    v = None
                continue
            if isinstance(e, dict) and ("index" in e or "const_index" in e):
                v = None
                continue
        return v

    def through_ref(env, v):
        if v is not None and v[0] == "ref":
            return ("num",) if v[1] == num_param else env.get(v[1])
        return v

    def op_val(env, op):
        k = op_const(op)
        if k is not None:
            if "str" in k:
                return ("text", (("lit:" + k["str"]),) if k["str"] else ())
            if k.get("ty") == "bool" or "int" in k and k.get("ty") == "bool":
                return ("bool", bool(k.get("int")))
            return None
        p = op_place(op)
        if p is None:
            return None
        if p["l"] == num_param and not p["p"]:
            return ("num",)
        return place_val(env, p)

    def run(bb, env, depth):
        paths[0] += 1
        if paths[0] > max_paths or depth > 400:
            raise Unknown("too many paths")
        env = dict(env)
        while True:
            blk = body.blocks[bb]
            for st in blk["stmts"]:
                if st["k"] != "assign":
                    continue
                dst, rv = st["dst"], st["rv"]
                v = None
                k = rv["k"]
                if k in ("use", "cast"):
                    v = op_val(env, rv["op"])
                elif k == "ref":
                    pl = rv["place"]
                    if not pl["p"]:
                        v = ("ref", pl["l"])
                    else:
                        v = place_val(env, pl)
                elif k == "agg":
                    vals = [op_val(env, o) for o in rv.get("ops", [])]
                    if rv.get("agg") == "array":
                        v = ("arr", vals)
                    elif rv.get("agg") == "tuple":
                        v = ("tuple", vals)
                    elif rv.get("agg") == "adt" and rv.get("adt", "").endswith("Option"):
                        v = None
                    else:
                        v = None
                elif k == "discr":
                    pv = place_val(env, rv["place"])
                    v = ("discr", pv[1]) if pv is not None and pv[0] == "opt" else None
                elif k == "un" and rv.get("op") == "Not":
                    ov = op_val(env, rv["a"]) if "a" in rv else None
                    v = ("bool", not ov[1]) if ov is not None and ov[0] == "bool" else None
                if not dst["p"]:
                    env[dst["l"]] = v
                elif any(isinstance(e, dict) and "f" in e for e in dst["p"]):
                    pass
            t = blk["term"]
            tk = t["k"]
            if tk == "goto":
                bb = t["target"]
                continue
            if tk in ("drop", "assert", "storage", "false_edge", "false_unwind"):
                bb = t.get("target")
                if bb is None:
                    return
                continue
            if tk == "return":
                v = env.get(0)
                try:
                    results.add(norm(text(v)))
                except Unknown as e:
                    results.add(None)
                    notes.append(str(e))
                return
            if tk == "switch":
                dv = op_val(env, t["discr"])
                if dv is not None and dv[0] == "bool":
                    tgt = None
                    for val, tg in t["arms"]:
                        if bool(val) == dv[1]:
                            tgt = tg
                    bb = tgt if tgt is not None else t["otherwise"]
                    continue
                if dv is not None and dv[0] == "discr":
                    is_none = assume[dv[1]]
                    want = 0 if is_none else 1
                    tgt = None
                    for val, tg in t["arms"]:
                        if val == want:
                            tgt = tg
                    bb = tgt if tgt is not None else t["otherwise"]
                    continue
                for tg in sorted({tg for _v, tg in t["arms"]} | {t["otherwise"]}):
                    if tg is not None:
                        run(tg, env, depth + 1)
                return
            if tk == "call":
                from .facts import Call
                c = Call(body, bb, t)
                args = [op_val(env, a) for a in c.args]
                name = c.name
                full = c.full or ""
                v = None
                try:
                    if re.search(r"String::new$|String::default$|Default>::default$", name) and not args:
                        v = ("text", ())
                    elif re.search(r"String::with_capacity$", name):
                        v = ("text", ())
                    elif re.search(r"String::push_str$", name):
                        tgt = args[0]
                        if tgt is not None and tgt[0] == "ref":
                            cur = env.get(tgt[1])
                            env[tgt[1]] = ("text", text(cur) + text(args[1]))
                        else:
                            raise Unknown("push_str on an untracked buffer")
                    elif re.search(r"Argument::<.*>::new_display|Argument::new_display", name + " " + full):
                        a0 = through_ref(env, args[0])
                        v = ("arg", a0)
                    elif re.search(r"Argument::<.*>::new_|Argument::new_", name + " " + full):
                        raise Unknown("non-Display format argument")
                    elif re.search(r"fmt::Arguments::<.*>::new|fmt::Arguments::new|Arguments::<.*>::from_str", name):
                        tm = template_of_call(c)
                        if tm is None:
                            raise Unknown("undecodable format template")
                        arr = args[1] if len(args) > 1 else None
                        arr = through_ref(env, arr)
                        v = ("fmtargs", tm, arr[1] if arr is not None and arr[0] == "arr" else [])
                    elif re.search(r"fmt::format$|format::format_inner$", name):
                        fa = args[0]
                        if fa is None or fa[0] != "fmtargs":
                            raise Unknown("format of untracked arguments")
                        pieces = []
                        ai = 0
                        for kind, val in fa[1]:
                            if kind == "lit":
                                if val:
                                    pieces.append("lit:" + val)
                            else:
                                if not (isinstance(val, dict) and val.get("default")):
                                    raise Unknown("non-default placeholder")
                                if ai >= len(fa[2]):
                                    raise Unknown("placeholder without argument")
                                pieces.extend(text(fa[2][ai]))
                                ai += 1
                        v = ("text", tuple(pieces))
                    elif re.search(r"::to_string$", name):
                        a0 = through_ref(env, args[0])
                        v = ("text", text(a0))
                    elif re.search(r"Option::<.*>::(is_none|is_some)$", name):
                        a0 = args[0]
                        if a0 is not None and a0[0] == "opt":
                            none = assume[a0[1]]
                            v = ("bool", none if name.endswith("is_none") else not none)
                    elif re.search(r"Option::<.*>::unwrap_or$", name):
                        a0 = args[0]
                        if a0 is not None and a0[0] == "opt":
                            v = ("text", text(args[1])) if assume[a0[1]] else ("text", (a0[1],))
                    elif re.search(r"Option::<.*>::unwrap_or_default$", name):
                        a0 = args[0]
                        if a0 is not None and a0[0] == "opt":
                            v = ("text", ()) if assume[a0[1]] else ("text", (a0[1],))
                    elif re.search(r"Option::<.*>::(unwrap|expect)$", name):
                        a0 = args[0]
                        if a0 is not None and a0[0] == "opt":
                            if assume[a0[1]]:
                                return   # panics: no result on this path (reported by C17, not here)
                            v = ("text", (a0[1],))
                    elif re.search(r"::concat$", name):
                        a0 = through_ref(env, args[0])
                        if a0 is None or a0[0] != "arr":
                            raise Unknown("concat of an untracked slice")
                        out = ()
                        for x in a0[1]:
                            out += text(x)
                        v = ("text", out)
                    elif re.search(r"::join$", name) and len(args) > 1:
                        a0 = through_ref(env, args[0])
                        if a0 is None or a0[0] != "arr":
                            raise Unknown("join of an untracked slice")
                        sep = text(args[1])
                        out = ()
                        for i, x in enumerate(a0[1]):
                            out += (sep if i else ()) + text(x)
                        v = ("text", out)
                    elif re.search(_SAME, name) and args:
                        v = args[0]
                        if v is not None and v[0] == "ref" and not re.search(r"deref_mut$|as_mut", name):
                            inner = through_ref(env, v)
                            if inner is not None:
                                v = inner
                    elif re.search(r"Option::<.*>::map$", name) and args and args[0] is not None and args[0][0] == "opt":
                        v = args[0]          # `.as_ref().map(String::as_str)` and the like keep the text
                    else:
                        v = None
                except Unknown as e:
                    results.add(None)
                    notes.append("%s (%s)" % (e, c.where()))
                    return
                if not c.dst["p"]:
                    env[c.dst["l"]] = v
                bb = c.target
                if bb is None:
                    return
                continue
            return

    def norm(pieces):
        out = []
        for p in pieces:
            if p == "lit:":
                continue
            if out and out[-1].startswith("lit:") and p.startswith("lit:"):
                out[-1] = out[-1] + p[4:]
            else:
                out.append(p)
        return tuple(out)

    try:
        run(0, {}, 0)
    except Unknown as e:
        results.add(None)
        notes.append(str(e))
    except RecursionError:
        results.add(None)
        notes.append("recursion limit")
    return results, notes
