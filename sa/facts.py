"""Fact model: loads the JSON written by tools/mirfacts and offers CFG / def-use helpers.

Nothing here runs the analysed program; it is a read-only view of rustc's `mir_built`.
"""
import json
import re
from collections import defaultdict


def place_str(p):
    s = "_%d" % p["l"]
    for e in p["p"]:
        if e == "*":
            s = "(*%s)" % s
        elif isinstance(e, str):
            s = "%s.<%s>" % (s, e)
        elif "f" in e:
            s = "%s.%s" % (s, e.get("n", e["f"]))
        elif "downcast" in e:
            s = "(%s as %s)" % (s, e.get("n") or e["downcast"])
        elif "idx" in e:
            s = "%s[_%d]" % (s, e["idx"])
        else:
            s = "%s[..]" % s
    return s


def op_str(o):
    if o is None:
        return "?"
    if "copy" in o:
        return place_str(o["copy"])
    if "move" in o:
        return "move " + place_str(o["move"])
    if "const" in o:
        c = o["const"]
        if "int" in c:
            return "const %d_%s" % (c["int"], c["ty"])
        if "str" in c:
            return "const %r" % c["str"]
        if "fn" in c:
            return "fn " + c["fn_full"]
        return c.get("text", "const ?")
    return str(o)


def op_place(o):
    """Place of a copy/move operand, else None."""
    if o is None:
        return None
    if "copy" in o:
        return o["copy"]
    if "move" in o:
        return o["move"]
    return None


def op_local(o):
    p = op_place(o)
    return None if p is None else p["l"]


def op_const(o):
    if o is not None and "const" in o:
        return o["const"]
    return None


def rv_str(rv):
    k = rv["k"]
    if k == "use":
        return op_str(rv["op"])
    if k == "ref":
        return ("&mut " if rv["mut"] else "&") + place_str(rv["place"])
    if k == "rawptr":
        return "&raw " + place_str(rv["place"])
    if k == "cast":
        return "%s as %s (%s)" % (op_str(rv["op"]), rv["ty"], rv["kind"])
    if k == "bin":
        return "%s(%s, %s)" % (rv["op"], op_str(rv["a"]), op_str(rv["b"]))
    if k == "un":
        return "%s(%s)" % (rv["op"], op_str(rv["a"]))
    if k == "discr":
        return "discriminant(%s)" % place_str(rv["place"])
    if k == "agg":
        a = rv["agg"]
        if a == "adt":
            head = "%s::%s" % (rv["adt"], rv["variant"])
        elif a in ("closure", "coroutine", "coroutine_closure"):
            head = "%s %s" % (a, rv["def"])
        else:
            head = a
        return "%s{%s}" % (head, ", ".join(op_str(x) for x in rv["ops"]))
    if k == "repeat":
        return "[%s; n]" % op_str(rv["op"])
    return rv.get("text", k)


class Call:
    """One call terminator."""

    def __init__(self, body, bb, term):
        self.body = body
        self.bb = bb
        self.term = term
        f = term["func"]
        self.func = f
        self.declared = f.get("def")  # path without generic args (None for indirect)
        self.resolved = f.get("resolved") or f.get("def")
        self.full = f.get("resolved_full") or f.get("full") or ""
        self.krate = f.get("krate")
        self.local = f.get("local", False)
        self.trait = f.get("trait")
        self.args = term["args"]
        self.dst = term["dst"]
        self.target = term.get("target")
        self.line = term.get("line")
        self.exp = term.get("exp")

    @property
    def name(self):
        return self.resolved or "<indirect>"

    def names(self):
        return {n for n in (self.declared, self.resolved) if n}

    def matches(self, pat):
        return any(re.search(pat, n) for n in self.names())

    def where(self):
        return "%s:%s" % (self.body.file_short, self.line)

    def __repr__(self):
        return "Call(%s @ %s bb%d)" % (self.name, self.where(), self.bb)


class Body:
    def __init__(self, j, facts):
        self.j = j
        self.facts = facts
        self.id = j["id"]
        self.kind = j["kind"]
        self.root = j.get("root")
        self.parent = j.get("parent")
        self.file = j["file"]
        self.file_short = re.sub(r"^.*?/?(src/.*)$", r"\1", j["file"])
        self.line = j["line"]
        self.blocks = j["blocks"]
        self.locals = j["locals"]
        self.arg_count = j["arg_count"]
        self.nblocks = len(self.blocks)
        self._calls = None
        self._defs = None
        self._succ = None
        self._pred = None
        self._live = None

    # ---- CFG ----
    def term(self, bb):
        return self.blocks[bb]["term"]

    def succs_of(self, bb, unwind=False):
        t = self.blocks[bb]["term"]
        k = t["k"]
        out = []
        if k == "goto":
            out.append(t["target"])
        elif k == "switch":
            out.extend(a[1] for a in t["arms"])
            out.append(t["otherwise"])
        elif k in ("drop", "assert", "yield"):
            out.append(t["target"])
        elif k == "call":
            if t.get("target") is not None:
                out.append(t["target"])
        if unwind and t.get("unwind") is not None:
            out.append(t["unwind"])
        # dedupe preserving order
        seen = []
        for x in out:
            if x not in seen:
                seen.append(x)
        return seen

    @property
    def succ(self):
        if self._succ is None:
            self._succ = [self.succs_of(i) for i in range(self.nblocks)]
        return self._succ

    @property
    def pred(self):
        if self._pred is None:
            p = [[] for _ in range(self.nblocks)]
            for i, ss in enumerate(self.succ):
                for s in ss:
                    p[s].append(i)
            self._pred = p
        return self._pred

    def returns(self):
        return [i for i in range(self.nblocks) if self.blocks[i]["term"]["k"] == "return"]

    def reachable_blocks(self):
        """Blocks reachable from the entry along normal edges, with variant tracking (a
        `switch discriminant(x)` right after `x = Enum::Variant{..}` follows one arm only:
        removes async_trait's `if let Some(r) = None::<T> { return r }` prologue)."""
        if self._live is None:
            from . import cfg
            self._live = set()  # guard against recursion through succ
            plain = {0}
            st = [0]
            while st:
                b = st.pop()
                for s in self.succ[b]:
                    if s not in plain:
                        plain.add(s)
                        st.append(s)
            self._live = plain
            try:
                self._live = cfg.explore(self, 0)[0]
            except RecursionError:
                self._live = plain
        return self._live

    # ---- calls ----
    @property
    def calls(self):
        if self._calls is None:
            live = self.reachable_blocks()
            self._calls = [
                Call(self, i, b["term"])
                for i, b in enumerate(self.blocks)
                if b["term"]["k"] == "call" and i in live
            ]
        return self._calls

    def calls_to(self, pat):
        return [c for c in self.calls if c.matches(pat)]

    # ---- def-use ----
    @property
    def defs(self):
        """local -> list of (bb, kind, payload): kind 'assign' (stmt) or 'call' (Call)."""
        if self._defs is None:
            d = defaultdict(list)
            live = self.reachable_blocks()
            for i, b in enumerate(self.blocks):
                if i not in live:
                    continue
                for si, st in enumerate(b["stmts"]):
                    if st["k"] == "assign":
                        d[st["dst"]["l"]].append((i, "assign", st))
                t = b["term"]
                if t["k"] == "call":
                    d[t["dst"]["l"]].append((i, "call", Call(self, i, t)))
                elif t["k"] == "yield":
                    pass
            self._defs = d
        return self._defs

    def local_name(self, l):
        return self.locals[l].get("name")

    def local_ty(self, l):
        return self.locals[l]["ty"]

    def place_ty(self, p):
        """type of a place (None when an index / slice projection makes it unknown)"""
        cur = self.locals[p["l"]]["ty"]
        for e in p["p"]:
            if e == "*":
                cur = re.sub(r"^&\s*('\w+\s+)?(mut\s+)?", "", cur) if cur.startswith("&") else cur
                if cur.startswith("std::boxed::Box<"):
                    cur = cur[len("std::boxed::Box<"):-1]
            elif isinstance(e, dict) and "f" in e:
                cur = e.get("ty")
                if cur is None:
                    return None
            elif isinstance(e, dict) and "downcast" in e:
                continue
            else:
                return None
        return cur

    def locals_named(self, name):
        return [i for i, l in enumerate(self.locals) if l.get("name") == name]

    def where(self, bb=None):
        if bb is None:
            return "%s:%s" % (self.file_short, self.line)
        return "%s:%s" % (self.file_short, self.blocks[bb]["term"].get("line"))

    def __repr__(self):
        return "Body(%s)" % self.id


class Facts:
    def __init__(self, path):
        with open(path) as f:
            self.j = json.load(f)
        self.path = path
        self.crate = self.j["crate"]
        self.kind = self.j["kind"]
        self.bodies = [Body(b, self) for b in self.j["bodies"]]
        self.by_id = {b.id: b for b in self.bodies}
        self.children = defaultdict(list)
        for b in self.bodies:
            if b.parent and b.parent != b.id:
                self.children[b.parent].append(b)
        self.adts = {a["path"]: a for a in self.j["adts"]}
        self.impls = self.j["impls"]
        self.cg = self.j["callgraph"]
        self.inlined = {}
        self._inline_anchors()

    # anchored functions whose private helpers are inlined (so that splitting such a function into helpers —
    # synchronous ones, awaited async ones, closures called directly — does not change what the rules see).
    # (anchor regex, module regex of inlinable callees, exclusion regex, kinds of inlining)
    _DRIVER_EXCL = r"::(process_references|load_code|generate_code|check_references)(::\{closure#\d+\})?$|AsyncTempFile|ReferenceProcessor"
    _MAP_EXCL = (r"::(process_references|load_code|generate_code|check_references)(::\{closure#\d+\})?$|AsyncTempFile::(new|path|file)(::\{closure#\d+\})?$"
                 r"|AsyncTempFile as std::ops::Drop|ReferenceProcessor<.*>>::(map|reduce)(::\{closure#\d+\})?$")
    INLINE_ANCHORS = [
        (r"^codegen::generate::(generate_code|check_references)$", r"^codegen::generate::", _DRIVER_EXCL, "sync+closure"),
        (r"^parser::rust_parser::rust_log_ref_finder::find$", r"^parser::rust_parser::rust_log_ref_finder::",
         r"::(find|macro_of_interest)$", "sync"),
        (r"^config::context::Context::(new|read_cached_next_reference_id|cache_next_reference_id)$", r"^config::context::",
         r"::(new|read_cached_next_reference_id|cache_next_reference_id)$|::default_\w+$", "sync"),
        (r"^(main|setup_context)$", r"^[a-z_0-9]+$|^ProgArgs::|^<ProgArgs", r"^(main|setup_context)$", "sync"),
        (r"^parser::rust_parser::rust_log_ref_finder::macro_of_interest$", r"^parser::rust_parser::rust_log_ref_finder::", r"::(find|macro_of_interest)$", "sync"),
        (r"^parser::code_parser::(check_for_boolean_directive|check_for_ignore_directive|check_for_no_kvp_directive|find_references)$", r"^parser::code_parser::",
         r"::(check_for_boolean_directive|check_for_ignore_directive|check_for_no_kvp_directive|find_references|get_name_for_ref_kvp_key)$|LogRefEntry|CodePosition", "sync"),
        (r"^parser::code_parser::LogRefEntry::(extract_reference|usable_reference_position|insertable_reference_string)$", r"^parser::code_parser::",
         r"LogRefEntry::(new|exists|reference|position|kind|extract_reference|usable_reference_position|insertable_reference_string)$|CodePosition|::(check_for_\w+|find_references|get_name_for_ref_kvp_key)$", "sync"),
        (r"^codegen::generate::load_code::\{closure#0\}$", r"^codegen::generate::", _MAP_EXCL, "sync+async"),
        (r"^codegen::finder::CodeFinder::<'\w+>::(find|new)$", r"^codegen::finder::", r"CodeFinder::<'\w+>::(find|new)$|CodeFile::new$", "sync"),
        (r"^<codegen::generate::\w+ as codegen::generate::ReferenceProcessor<.*>>::map::\{closure#0\}$", r"^codegen::generate::|^<codegen::generate::", _MAP_EXCL, "sync+async"),
        (r"^<codegen::generate::\w+ as codegen::generate::ReferenceProcessor<.*>>::map::\{closure#0\}::\{closure#\d+\}$", r"^codegen::generate::|^<codegen::generate::", _MAP_EXCL, "sync"),
        (r"^codegen::generate::AsyncTempFile::new::\{closure#0\}$", r"^codegen::generate::|^<codegen::generate::", _MAP_EXCL, "sync+async"),
        (r"^codegen::generate::process_references::\{closure#0\}$", r"^codegen::generate::|^<codegen::generate::", _MAP_EXCL, "sync+async"),
    ]

    def _inline_anchors(self):
        from .inline import inline_calls, inline_async, desugar_combinators
        for (anchor_pat, mod_pat, exclude_pat, kinds) in self.INLINE_ANCHORS:
            for b in list(self.bodies):
                if not re.search(anchor_pat, b.id):
                    continue

                def ok_sync(cb, mod_pat=mod_pat, exclude_pat=exclude_pat):
                    if cb.kind not in ("Fn", "AssocFn") or not re.search(mod_pat, cb.id) or re.search(exclude_pat, cb.id):
                        return False
                    if cb.nblocks > 400 or "::tests::" in cb.id:
                        return False
                    # synchronous only: an async fn's body is a coroutine child
                    if any(c.kind.startswith("coroutine") for c in self.children.get(cb.id, [])):
                        return False
                    return True

                def ok_any(cb, mod_pat=mod_pat, exclude_pat=exclude_pat, kinds=kinds):
                    if not re.search(mod_pat, cb.id) or re.search(exclude_pat, cb.id) or "::tests::" in cb.id or cb.nblocks > 900:
                        return False
                    if cb.kind.startswith("closure"):
                        return "closure" in kinds
                    return "async" in kinds
                nb = b
                for _ in range(4):
                    n1 = inline_calls(self, nb, ok_sync)
                    n2 = inline_async(self, n1, ok_any) if kinds != "sync" else n1
                    # the processors' map bodies keep `filter(..)` / `any(..)` as calls: the selection rules (C05-R1) read
                    # the predicate closures themselves
                    n3 = desugar_combinators(self, n2, iterators=not re.search(r"ReferenceProcessor<.*>>::map::", b.id))
                    if n3 is nb:
                        break
                    nb = n3
                if nb is not b:
                    self.inlined[b.id] = b
                    self.by_id[b.id] = nb
                    self.bodies[self.bodies.index(b)] = nb

    def fully_inlined(self):
        facts = self
        """helper functions that only exist inside the anchored functions they were inlined into: every call to
        them was replaced by their body, so their panic sites are audited there (with the actual arguments)"""
        c = getattr(facts, "_fully_inlined", None)
        if c is not None:
            return c
        inl = set()
        for b in facts.bodies:
            if b.id in facts.inlined:
                for blk in b.blocks:
                    n = blk["term"].get("inlined_call")
                    if n:
                        inl.add(n)
        # coroutine bodies of inlined async fns count with their parent
        for b in facts.bodies:
            if b.parent in inl and b.kind.startswith("coroutine"):
                inl.add(b.id)
        remaining = set()
        for b in facts.non_test_bodies():
            if b.id in inl:
                continue
            for c in b.calls:
                for n in c.names():
                    if n in inl:
                        remaining.add(n)
        out = {x for x in inl if x not in remaining and not any(facts.by_id.get(x) is not None and facts.by_id[x].parent == r for r in remaining)}
        # a helper called from another helper that is itself fully inlined is fine; one still called elsewhere is not
        facts._fully_inlined = out
        return out

    def body(self, ident):
        return self.by_id.get(ident)

    def find(self, pat):
        """Bodies whose id matches the regex."""
        r = re.compile(pat)
        return [b for b in self.bodies if r.search(b.id)]

    def one(self, pat):
        m = self.find(pat)
        return m[0] if len(m) == 1 else None

    def nested(self, body, deep=True):
        """Closures / coroutines lexically nested in `body`."""
        out = []
        st = [body.id]
        while st:
            x = st.pop()
            for c in self.children.get(x, []):
                if c.kind.startswith("closure") or c.kind.startswith("coroutine"):
                    out.append(c)
                    if deep:
                        st.append(c.id)
                elif deep and c.kind in ("Fn", "AssocFn", "Static", "Const", "AssocConst"):
                    # items declared inside a fn body (lazy_static!, tracing callsites)
                    pass
        return out

    def async_body(self, fn_body):
        """For an `async fn` (or #[async_trait] method) return the coroutine body that holds
        the user's code: the unique coroutine child, following Box::pin(async move {..})."""
        cs = [c for c in self.children.get(fn_body.id, []) if c.kind.startswith("coroutine")]
        if len(cs) == 1:
            return cs[0]
        return None

    def non_test_bodies(self):
        return [b for b in self.bodies if "::tests::" not in b.id]
