"""Builds the fact files from /repo's current working tree (never from a snapshot).

facts_for(repo) hashes Cargo.toml, Cargo.lock and src/** and (re)runs the mirfacts driver
under `cargo +nightly check` when no fact set for that hash exists. A file lock serialises
concurrent checks; all 18 checks share one build."""
import fcntl
import glob
import hashlib
import os
import shutil
import subprocess
import sys
import time

VERIF = os.path.dirname(os.path.dirname(os.path.abspath(__file__)))
WORK = os.path.join(VERIF, ".work")
DRIVER = os.path.join(VERIF, "tools", "mirfacts", "target", "release", "mirfacts")
GRAMMARFACTS = os.path.join(VERIF, "tools", "stable", "target", "release", "grammarfacts")
RXTOOL = os.path.join(VERIF, "tools", "stable", "target", "release", "rxtool")


def sh(cmd, **kw):
    return subprocess.run(cmd, stdout=subprocess.PIPE, stderr=subprocess.STDOUT, text=True, **kw)


def nightly_sysroot():
    r = sh(["rustc", "+nightly", "--print", "sysroot"])
    return r.stdout.strip()


def tree_hash(repo):
    h = hashlib.sha256()
    files = [os.path.join(repo, "Cargo.toml"), os.path.join(repo, "Cargo.lock")]
    for root, dirs, fs in os.walk(os.path.join(repo, "src")):
        dirs.sort()
        for f in sorted(fs):
            files.append(os.path.join(root, f))
    for p in files:
        h.update(p[len(repo):].encode())
        try:
            with open(p, "rb") as f:
                h.update(f.read())
        except OSError:
            h.update(b"<missing>")
    # the driver itself is part of the key
    try:
        h.update(str(os.path.getmtime(DRIVER)).encode())
    except OSError:
        pass
    return h.hexdigest()[:20]


def ensure_tools():
    """Build the driver / stable tools if they are missing (setup_cmd normally did)."""
    if not os.path.exists(DRIVER):
        r = sh(["cargo", "build", "--release", "--offline"], cwd=os.path.join(VERIF, "tools", "mirfacts"))
        if r.returncode != 0:
            print(r.stdout)
            print("checker broken: cannot build mirfacts driver")
            sys.exit(2)
    def _stale(binary, src_dir):
        try:
            t = os.path.getmtime(binary)
            return any(os.path.getmtime(os.path.join(d, f)) > t for d, _s, fs in os.walk(src_dir) for f in fs)
        except OSError:
            return True
    if not (os.path.exists(GRAMMARFACTS) and os.path.exists(RXTOOL)) or _stale(RXTOOL, os.path.join(VERIF, "tools", "stable", "src")):
        r = sh(["cargo", "build", "--release", "--offline"], cwd=os.path.join(VERIF, "tools", "stable"))
        if r.returncode != 0:
            print(r.stdout)
            print("checker broken: cannot build grammarfacts/rxtool")
            sys.exit(2)


def _run_driver(repo, out_dir, target_dir, extra_rustflags=""):
    os.makedirs(out_dir, exist_ok=True)
    os.makedirs(target_dir, exist_ok=True)
    # cargo must not skip the wrapper for the primary package
    for d in glob.glob(os.path.join(target_dir, "debug", ".fingerprint", "breadlog-*")):
        shutil.rmtree(d, ignore_errors=True)
    env = dict(os.environ)
    env["LD_LIBRARY_PATH"] = os.path.join(nightly_sysroot(), "lib") + ":" + env.get("LD_LIBRARY_PATH", "")
    env["MIRFACTS_OUT"] = out_dir
    env["RUSTFLAGS"] = ("-Zmir-opt-level=0 -Awarnings " + extra_rustflags).strip()
    env["RUSTC_WORKSPACE_WRAPPER"] = DRIVER
    env["CARGO_TARGET_DIR"] = target_dir
    env["CARGO_NET_OFFLINE"] = "true"
    env.pop("RUSTC_WRAPPER", None)
    t0 = time.time()
    r = sh(["cargo", "+nightly", "check", "--offline", "--bin", "breadlog", "--lib"], cwd=repo, env=env)
    ok = r.returncode == 0
    need = [os.path.join(out_dir, "breadlog-bin.json"), os.path.join(out_dir, "breadlog-lib.json")]
    for n in need:
        if not os.path.exists(n) or os.path.getmtime(n) < t0 - 1:
            ok = False
    return ok, r.stdout


def facts_for(repo="/repo", config="default"):
    """Returns the directory with breadlog-bin.json / breadlog-lib.json for repo's current tree.
    On a tree that does not compile, prints the compiler output and returns None."""
    ensure_tools()
    os.makedirs(WORK, exist_ok=True)
    key = tree_hash(repo) + ("" if config == "default" else "-" + config)
    out_dir = os.path.join(WORK, "facts", key)
    lock = open(os.path.join(WORK, "facts.lock"), "w")
    fcntl.flock(lock, fcntl.LOCK_EX)
    try:
        marker = os.path.join(out_dir, "OK")
        if os.path.exists(marker):
            return out_dir
        if os.path.exists(out_dir):
            shutil.rmtree(out_dir, ignore_errors=True)
        target = os.path.join(WORK, "target" if config == "default" else "target-" + config)
        flags = "" if config == "default" else "-C overflow-checks=off"
        ok, log = _run_driver(repo, out_dir, target, flags)
        if not ok:
            print(log[-6000:])
            return None
        with open(marker, "w") as f:
            f.write(time.strftime("%Y-%m-%dT%H:%M:%S"))
        # keep the cache small: drop all but the 40 newest fact sets
        root = os.path.join(WORK, "facts")
        ds = sorted((d for d in glob.glob(os.path.join(root, "*")) if os.path.isdir(d)), key=os.path.getmtime)
        for d in ds[:-40]:
            shutil.rmtree(d, ignore_errors=True)
        return out_dir
    finally:
        fcntl.flock(lock, fcntl.LOCK_UN)
        lock.close()


if __name__ == "__main__":
    d = facts_for(sys.argv[1] if len(sys.argv) > 1 else "/repo")
    print(d)
