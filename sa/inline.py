"""CFG-level inlining of small local helper functions into an anchored function, so that path
and provenance rules see the same flat control flow whether or not a maintainer split the
function into helpers. Only synchronous, non-recursive helpers are inlined; the result is a new
Body over merged JSON (locals and blocks of the callee are appended and renumbered)."""
import copy
import re
from .facts import Body


def _remap_place(p, loff):
    p["l"] += loff
    for e in p["p"]:
        if isinstance(e, dict) and "idx" in e:
            e["idx"] += loff


def _remap_op(o, loff):
    if o is None:
        return
    for k in ("copy", "move"):
        if k in o:
            _remap_place(o[k], loff)


def _remap_rv(rv, loff):
    k = rv["k"]
    if k in ("use", "cast", "repeat"):
        _remap_op(rv["op"], loff)
    elif k in ("ref", "rawptr", "discr"):
        _remap_place(rv["place"], loff)
    elif k == "bin":
        _remap_op(rv["a"], loff)
        _remap_op(rv["b"], loff)
    elif k == "un":
        _remap_op(rv["a"], loff)
    elif k == "agg":
        for o in rv["ops"]:
            _remap_op(o, loff)


def _remap_block(blk, loff, boff):
    for st in blk["stmts"]:
        _remap_place(st["dst"], loff)
        if st["k"] == "assign":
            _remap_rv(st["rv"], loff)
    t = blk["term"]
    k = t["k"]
    for key in ("target", "otherwise", "unwind", "drop", "false_edge"):
        if isinstance(t.get(key), int):
            t[key] += boff
    if k == "switch":
        _remap_op(t["discr"], loff)
        t["arms"] = [[a[0], a[1] + boff] for a in t["arms"]]
    elif k == "call":
        f = t["func"]
        if "indirect" in f:
            _remap_op(f["indirect"], loff)
        for a in t["args"]:
            _remap_op(a, loff)
        _remap_place(t["dst"], loff)
    elif k == "drop":
        _remap_place(t["place"], loff)
    elif k == "assert":
        _remap_op(t["cond"], loff)
    elif k == "yield":
        _remap_op(t["value"], loff)


def inline_calls(facts, body, should_inline, max_depth=3):
    """returns a Body in which calls to functions selected by should_inline(callee_body) are replaced
    by the callee's blocks (recursively up to max_depth). Returns the original body when nothing
    was inlined."""
    j = copy.deepcopy(body.j)
    did = False
    for _round in range(max_depth):
        progressed = False
        nblocks = len(j["blocks"])
        for bi in range(nblocks):
            t = j["blocks"][bi]["term"]
            if t["k"] != "call":
                continue
            f = t["func"]
            name = f.get("resolved") or f.get("def")
            cb = facts.by_id.get(name) if name else None
            if cb is None or cb.id == body.id or not should_inline(cb):
                continue
            if t.get("target") is None:
                continue
            cj = copy.deepcopy(cb.j)
            loff = len(j["locals"])
            boff = len(j["blocks"])
            for blk in cj["blocks"]:
                _remap_block(blk, loff, boff)
            # bind arguments
            stmts = j["blocks"][bi]["stmts"]
            for k, a in enumerate(t["args"]):
                stmts.append({"k": "assign", "dst": {"l": loff + 1 + k, "p": []}, "rv": {"k": "use", "op": a}, "line": t.get("line"), "inlined_arg": True})
            dst, target = t["dst"], t["target"]
            # returns -> write the destination and continue after the call
            for blk in cj["blocks"]:
                if blk["term"]["k"] == "return":
                    blk["stmts"].append({"k": "assign", "dst": copy.deepcopy(dst), "rv": {"k": "use", "op": {"move": {"l": loff, "p": []}}}, "line": blk["term"].get("line"), "inlined_ret": True})
                    blk["term"] = {"k": "goto", "target": target, "line": blk["term"].get("line")}
            j["blocks"][bi]["term"] = {"k": "goto", "target": boff, "line": t.get("line"), "inlined_call": name}
            # callee parameters are ordinary locals now
            j["locals"].extend(cj["locals"])
            j["blocks"].extend(cj["blocks"])
            progressed = True
            did = True
        if not progressed:
            break
    if not did:
        return body
    nb = Body(j, facts)
    nb.inlined = True
    return nb


# ---------------------------------------------------------------------------------------------
# awaited local async fns, directly called local closures, block_on(async block)

def _place_of(op):
    if not isinstance(op, dict):
        return None
    return op.get("move") or op.get("copy")


def _single_assign(j, defs, l):
    ds = defs.get(l, [])
    return ds[0] if len(ds) == 1 else None


def _defs_of(j):
    """local -> [(bb, 'assign'|'call', stmt-or-term)] for whole-local writes"""
    d = {}
    for bi, blk in enumerate(j["blocks"]):
        for st in blk["stmts"]:
            if st["k"] == "assign" and not st["dst"]["p"]:
                d.setdefault(st["dst"]["l"], []).append((bi, "assign", st))
        t = blk["term"]
        if t["k"] == "call" and not t["dst"]["p"]:
            d.setdefault(t["dst"]["l"], []).append((bi, "call", t))
    return d


def _trace_value(j, defs, op, depth=0):
    """follow a future / closure value back through moves, `&mut x`, Pin::new_unchecked and into_future to the
    statement or call that created it: ('call', bb, term) | ('agg', bb, stmt) | None"""
    p = _place_of(op)
    if p is None or depth > 12:
        return None
    if [e for e in p["p"] if e != "*"]:
        return None
    d = _single_assign(j, defs, p["l"])
    if d is None:
        return None
    bi, kind, x = d
    if kind == "call":
        f = x["func"]
        nm = f.get("resolved") or f.get("def") or ""
        if re.search(r"::into_future$|Pin::<.*>::new_unchecked$|Pin::<.*>::new$", nm) and x["args"]:
            return _trace_value(j, defs, x["args"][0], depth + 1)
        return ("call", bi, x)
    rv = x["rv"]
    if rv["k"] in ("use", "cast"):
        return _trace_value(j, defs, rv["op"], depth + 1)
    if rv["k"] in ("ref", "rawptr"):
        return _trace_value(j, defs, {"copy": rv["place"]}, depth + 1)
    if rv["k"] == "agg":
        return ("agg", bi, x)
    return None


def _rewrite_env(blk_list, env_local, upvar_locals):
    """in the (already renumbered) callee blocks replace `env.k...` by the local bound to capture k"""
    def fix(p):
        if p["l"] != env_local:
            return
        elems = p["p"]
        i = 0
        while i < len(elems) and elems[i] == "*":
            i += 1
        if i < len(elems) and isinstance(elems[i], dict) and "f" in elems[i] and elems[i]["f"] in upvar_locals:
            p["l"] = upvar_locals[elems[i]["f"]]
            p["p"] = elems[i + 1:]

    def fix_op(o):
        q = _place_of(o)
        if q is not None:
            fix(q)

    for blk in blk_list:
        for st in blk["stmts"]:
            fix(st["dst"])
            if st["k"] != "assign":
                continue
            rv = st["rv"]
            k = rv["k"]
            if k in ("use", "cast", "repeat"):
                fix_op(rv["op"])
            elif k in ("ref", "rawptr", "discr"):
                fix(rv["place"])
            elif k == "bin":
                fix_op(rv["a"]); fix_op(rv["b"])
            elif k == "un":
                fix_op(rv["a"])
            elif k == "agg":
                for o in rv["ops"]:
                    fix_op(o)
        t = blk["term"]
        k = t["k"]
        if k == "switch":
            fix_op(t["discr"])
        elif k == "call":
            if "indirect" in t["func"]:
                fix_op(t["func"]["indirect"])
            for a in t["args"]:
                fix_op(a)
            fix(t["dst"])
        elif k == "drop":
            fix(t["place"])
        elif k == "assert":
            fix_op(t["cond"])
        elif k == "yield":
            fix_op(t["value"])


def _creation_ops(facts, fn_body, child_id):
    """operands of the aggregate that creates coroutine / closure `child_id` in `fn_body`"""
    for blk in fn_body.j["blocks"]:
        for st in blk["stmts"]:
            if st["k"] == "assign" and st["rv"]["k"] == "agg" and st["rv"].get("def") == child_id:
                return st["rv"]["ops"]
    return None


def _root_param(fn_body, op, depth=0):
    p = _place_of(op)
    if p is None or p["p"] or depth > 6:
        return None
    l = p["l"]
    if 1 <= l <= fn_body.arg_count and not fn_body.defs.get(l):
        return l
    ds = fn_body.defs.get(l, [])
    if len(ds) == 1 and ds[0][1] == "assign" and ds[0][2]["rv"]["k"] == "use":
        return _root_param(fn_body, ds[0][2]["rv"]["op"], depth + 1)
    return None


def _splice(j, cj, upvar_ops, at_block, ret_stmt, ret_target, arg_binds=()):
    """append callee blocks/locals (cj) to j; bind captures (index -> operand in j's frame) and parameters
    (callee local -> operand) in block `at_block`, whose terminator becomes a goto to the callee's entry;
    every callee `return` becomes ret_stmt(callee _0 local) + goto ret_target. Returns nothing."""
    loff = len(j["locals"])
    boff = len(j["blocks"])
    for blk in cj["blocks"]:
        _remap_block(blk, loff, boff)
    j["locals"].extend(cj["locals"])
    upl = {}
    stmts = j["blocks"][at_block]["stmts"]
    line = j["blocks"][at_block]["term"].get("line")
    for k, o in sorted(upvar_ops.items()):
        j["locals"].append({"ty": "?capture", "name": None})
        ul = len(j["locals"]) - 1
        upl[k] = ul
        stmts.append({"k": "assign", "dst": {"l": ul, "p": []}, "rv": {"k": "use", "op": copy.deepcopy(o)}, "line": line, "inlined_arg": True})
    for (cl, o) in arg_binds:
        stmts.append({"k": "assign", "dst": {"l": cl + loff, "p": []}, "rv": {"k": "use", "op": copy.deepcopy(o)}, "line": line, "inlined_arg": True})
    _rewrite_env(cj["blocks"], 1 + loff, upl)
    for blk in cj["blocks"]:
        if blk["term"]["k"] == "return":
            blk["stmts"].append(ret_stmt(loff, blk["term"].get("line")))
            blk["term"] = {"k": "goto", "target": ret_target, "line": blk["term"].get("line")}
    j["blocks"].extend(cj["blocks"])
    return boff


def inline_async(facts, body, should_inline, max_rounds=4, max_blocks=6000):
    """In `body`, replace (a) the poll of an awaited local async fn, (b) block_on(<local async block / fn>) and
    (c) a direct call of a local closure by the callee's blocks. The awaiting loop disappears: the callee's
    return writes Poll::Ready(value) and continues at the Ready arm."""
    j = copy.deepcopy(body.j)
    did = False
    for _round in range(max_rounds):
        progressed = False
        defs = _defs_of(j)
        nblocks = len(j["blocks"])
        if nblocks > max_blocks:
            break
        for bi in range(nblocks):
            t = j["blocks"][bi]["term"]
            if t["k"] != "call" or t.get("target") is None:
                continue
            f = t["func"]
            name = f.get("resolved") or f.get("def") or ""
            cb = facts.by_id.get(name) if name else None
            # (a) poll of a local coroutine body: `path::{closure#0}(pin, cx)`
            if cb is not None and cb.kind.startswith("coroutine") and len(t["args"]) == 2 and cb.id != body.id:
                parent = facts.by_id.get(cb.parent) if cb.parent else None
                src = _trace_value(j, defs, t["args"][0])
                if parent is None or src is None or not should_inline(parent):
                    continue
                upvar_ops = {}
                at = None
                if src[0] == "call" and (src[2]["func"].get("resolved") or src[2]["func"].get("def")) == parent.id and parent.kind in ("Fn", "AssocFn"):
                    ops = _creation_ops(facts, facts.inlined.get(parent.id, parent) if hasattr(facts, "inlined") else parent, cb.id)
                    if ops is None:
                        continue
                    okb = True
                    for k, o in enumerate(ops):
                        pj = _root_param(facts.inlined.get(parent.id, parent) if hasattr(facts, "inlined") else parent, o)
                        if pj is None or pj - 1 >= len(src[2]["args"]):
                            okb = False
                            break
                        upvar_ops[k] = src[2]["args"][pj - 1]
                    if not okb:
                        continue
                    at = src[1]
                elif src[0] == "agg" and src[2]["rv"].get("def") == cb.id:
                    upvar_ops = {k: o for k, o in enumerate(src[2]["rv"]["ops"])}
                    at = None   # bind at the poll (the aggregate stays where it is)
                else:
                    continue
                sw = j["blocks"][t["target"]]
                ready = None
                if sw["term"]["k"] == "switch":
                    for v, tg in sw["term"]["arms"]:
                        if v == 0:
                            ready = tg
                if ready is None:
                    continue
                dst = copy.deepcopy(t["dst"])

                def ret_stmt(loff, line, dst=dst):
                    return {"k": "assign", "dst": copy.deepcopy(dst), "line": line, "inlined_ret": True,
                            "rv": {"k": "agg", "agg": "adt", "adt": "std::task::Poll", "variant": "Ready", "variant_idx": 0,
                                   "ops": [{"move": {"l": loff, "p": []}}], "fields": ["0"]}}
                cj = copy.deepcopy((facts.inlined.get(cb.id, cb) if hasattr(facts, "inlined") else cb).j)
                if at is not None:
                    # captures are bound where the future was created; the creating call becomes a plain goto
                    ct = j["blocks"][at]["term"]
                    tmp_stmts = j["blocks"][at]["stmts"]
                    line = ct.get("line")
                    j["locals"].extend([])
                    # bind into fresh locals now, splice later at the poll
                    bound = {}
                    for k, o in sorted(upvar_ops.items()):
                        j["locals"].append({"ty": "?capture", "name": None})
                        ul = len(j["locals"]) - 1
                        tmp_stmts.append({"k": "assign", "dst": {"l": ul, "p": []}, "rv": {"k": "use", "op": copy.deepcopy(o)}, "line": line, "inlined_arg": True})
                        bound[k] = {"move": {"l": ul, "p": []}}
                    j["blocks"][at]["term"] = {"k": "goto", "target": ct["target"], "line": line, "inlined_call": parent.id}
                    upvar_ops = bound
                boff = _splice(j, cj, upvar_ops, bi, ret_stmt, ready, arg_binds=[(2, t["args"][1])] if cb.arg_count >= 2 else [])
                j["blocks"][bi]["term"] = {"k": "goto", "target": boff, "line": t.get("line"), "inlined_call": cb.id}
                progressed = did = True
                defs = _defs_of(j)
                continue
            # (b) block_on(future)
            if re.search(r"task::block_on$|executor::block_on$|task::Builder::blocking$", name) and t["args"]:
                src = _trace_value(j, defs, t["args"][-1])
                cbid = None
                upvar_ops = None
                at = None
                if src is not None and src[0] == "agg" and src[2]["rv"].get("agg") in ("coroutine",):
                    cbid = src[2]["rv"].get("def")
                    upvar_ops = {k: o for k, o in enumerate(src[2]["rv"]["ops"])}
                elif src is not None and src[0] == "call":
                    pid = src[2]["func"].get("resolved") or src[2]["func"].get("def")
                    parent = facts.by_id.get(pid) if pid else None
                    if parent is not None and parent.kind in ("Fn", "AssocFn"):
                        kids = [c for c in facts.children.get(parent.id, []) if c.kind.startswith("coroutine")]
                        if len(kids) == 1:
                            ops = _creation_ops(facts, parent, kids[0].id)
                            if ops is not None:
                                m = {}
                                for k, o in enumerate(ops):
                                    pj = _root_param(parent, o)
                                    if pj is None or pj - 1 >= len(src[2]["args"]):
                                        m = None
                                        break
                                    m[k] = src[2]["args"][pj - 1]
                                if m is not None:
                                    cbid, upvar_ops = kids[0].id, m
                cb2 = facts.by_id.get(cbid) if cbid else None
                if cb2 is None or cb2.id == body.id or not should_inline(cb2):
                    continue
                dst = copy.deepcopy(t["dst"])

                def ret_stmt2(loff, line, dst=dst):
                    return {"k": "assign", "dst": copy.deepcopy(dst), "line": line, "inlined_ret": True,
                            "rv": {"k": "use", "op": {"move": {"l": loff, "p": []}}}}
                cj = copy.deepcopy(cb2.j)
                boff = _splice(j, cj, upvar_ops, bi, ret_stmt2, t["target"])
                j["blocks"][bi]["term"] = {"k": "goto", "target": boff, "line": t.get("line"), "inlined_call": cb2.id}
                progressed = did = True
                defs = _defs_of(j)
                continue
            # (c) direct call of a local closure value
            if re.search(r"FnOnce<.*>>::call_once$|Fn<.*>>::call$|FnMut<.*>>::call_mut$|::call_once$|::call_mut$|ops::Fn.*::call$", name) or (cb is not None and cb.kind.startswith("closure")):
                if not t["args"]:
                    continue
                src = _trace_value(j, defs, t["args"][0])
                if src is None or src[0] != "agg" or src[2]["rv"].get("agg") != "closure":
                    continue
                cb3 = facts.by_id.get(src[2]["rv"].get("def"))
                if cb3 is None or cb3.id == body.id or not should_inline(cb3):
                    continue
                upvar_ops = {k: o for k, o in enumerate(src[2]["rv"]["ops"])}
                binds = []
                if len(t["args"]) >= 2 and cb3.arg_count >= 2:
                    tp = _place_of(t["args"][1])
                    td = _single_assign(j, defs, tp["l"]) if tp is not None and not tp["p"] else None
                    if td is not None and td[1] == "assign" and td[2]["rv"]["k"] == "agg" and td[2]["rv"].get("agg") == "tuple":
                        for i, o in enumerate(td[2]["rv"]["ops"][: cb3.arg_count - 1]):
                            binds.append((2 + i, o))
                    elif tp is not None:
                        for i in range(cb3.arg_count - 1):
                            binds.append((2 + i, {"move": {"l": tp["l"], "p": tp["p"] + [{"f": i}]}}))
                dst = copy.deepcopy(t["dst"])

                def ret_stmt3(loff, line, dst=dst):
                    return {"k": "assign", "dst": copy.deepcopy(dst), "line": line, "inlined_ret": True,
                            "rv": {"k": "use", "op": {"move": {"l": loff, "p": []}}}}
                cj = copy.deepcopy(cb3.j)
                boff = _splice(j, cj, upvar_ops, bi, ret_stmt3, t["target"], arg_binds=binds)
                j["blocks"][bi]["term"] = {"k": "goto", "target": boff, "line": t.get("line"), "inlined_call": cb3.id}
                progressed = did = True
                defs = _defs_of(j)
                continue
        if not progressed:
            break
    if not did:
        return body
    nb = Body(j, facts)
    nb.inlined = True
    return nb
