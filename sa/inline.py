"""CFG-level inlining of small local helper functions into an anchored function, so that path
and provenance rules see the same flat control flow whether or not a maintainer split the
function into helpers. Only synchronous, non-recursive helpers are inlined; the result is a new
Body over merged JSON (locals and blocks of the callee are appended and renumbered)."""
import copy
import re
from .facts import Body


def _remap_place(p, loff):
    p["l"] += loff
    for e in p["p"]:
        if isinstance(e, dict) and "idx" in e:
            e["idx"] += loff


def _remap_op(o, loff):
    if o is None:
        return
    for k in ("copy", "move"):
        if k in o:
            _remap_place(o[k], loff)


def _remap_rv(rv, loff):
    k = rv["k"]
    if k in ("use", "cast", "repeat"):
        _remap_op(rv["op"], loff)
    elif k in ("ref", "rawptr", "discr"):
        _remap_place(rv["place"], loff)
    elif k == "bin":
        _remap_op(rv["a"], loff)
        _remap_op(rv["b"], loff)
    elif k == "un":
        _remap_op(rv["a"], loff)
    elif k == "agg":
        for o in rv["ops"]:
            _remap_op(o, loff)


def _remap_block(blk, loff, boff):
    for st in blk["stmts"]:
        _remap_place(st["dst"], loff)
        if st["k"] == "assign":
            _remap_rv(st["rv"], loff)
    t = blk["term"]
    k = t["k"]
    for key in ("target", "otherwise", "unwind", "drop", "false_edge"):
        if isinstance(t.get(key), int):
            t[key] += boff
    if k == "switch":
        _remap_op(t["discr"], loff)
        t["arms"] = [[a[0], a[1] + boff] for a in t["arms"]]
    elif k == "call":
        f = t["func"]
        if "indirect" in f:
            _remap_op(f["indirect"], loff)
        for a in t["args"]:
            _remap_op(a, loff)
        _remap_place(t["dst"], loff)
    elif k == "drop":
        _remap_place(t["place"], loff)
    elif k == "assert":
        _remap_op(t["cond"], loff)
    elif k == "yield":
        _remap_op(t["value"], loff)


def inline_calls(facts, body, should_inline, max_depth=3):
    """returns a Body in which calls to functions selected by should_inline(callee_body) are replaced
    by the callee's blocks (recursively up to max_depth). Returns the original body when nothing
    was inlined."""
    j = copy.deepcopy(body.j)
    did = False
    for _round in range(max_depth):
        progressed = False
        nblocks = len(j["blocks"])
        for bi in range(nblocks):
            t = j["blocks"][bi]["term"]
            if t["k"] != "call":
                continue
            f = t["func"]
            name = f.get("resolved") or f.get("def")
            cb = facts.by_id.get(name) if name else None
            if cb is None or cb.id == body.id or not should_inline(cb):
                continue
            if t.get("target") is None:
                continue
            cj = copy.deepcopy(cb.j)
            loff = len(j["locals"])
            boff = len(j["blocks"])
            for blk in cj["blocks"]:
                _remap_block(blk, loff, boff)
            # bind arguments
            stmts = j["blocks"][bi]["stmts"]
            for k, a in enumerate(t["args"]):
                stmts.append({"k": "assign", "dst": {"l": loff + 1 + k, "p": []}, "rv": {"k": "use", "op": a}, "line": t.get("line"), "inlined_arg": True})
            dst, target = t["dst"], t["target"]
            # returns -> write the destination and continue after the call
            for blk in cj["blocks"]:
                if blk["term"]["k"] == "return":
                    blk["stmts"].append({"k": "assign", "dst": copy.deepcopy(dst), "rv": {"k": "use", "op": {"move": {"l": loff, "p": []}}}, "line": blk["term"].get("line"), "inlined_ret": True})
                    blk["term"] = {"k": "goto", "target": target, "line": blk["term"].get("line")}
            j["blocks"][bi]["term"] = {"k": "goto", "target": boff, "line": t.get("line"), "inlined_call": name}
            # callee parameters are ordinary locals now
            j["locals"].extend(cj["locals"])
            j["blocks"].extend(cj["blocks"])
            progressed = True
            did = True
        if not progressed:
            break
    if not did:
        return body
    nb = Body(j, facts)
    nb.inlined = True
    return nb


# ---------------------------------------------------------------------------------------------
# awaited local async fns, directly called local closures, block_on(async block)

def _place_of(op):
    if not isinstance(op, dict):
        return None
    return op.get("move") or op.get("copy")


def _single_assign(j, defs, l):
    ds = defs.get(l, [])
    return ds[0] if len(ds) == 1 else None


def _defs_of(j):
    """local -> [(bb, 'assign'|'call', stmt-or-term)] for whole-local writes"""
    d = {}
    for bi, blk in enumerate(j["blocks"]):
        for st in blk["stmts"]:
            if st["k"] == "assign" and not st["dst"]["p"]:
                d.setdefault(st["dst"]["l"], []).append((bi, "assign", st))
        t = blk["term"]
        if t["k"] == "call" and not t["dst"]["p"]:
            d.setdefault(t["dst"]["l"], []).append((bi, "call", t))
    return d


def _trace_value(j, defs, op, depth=0):
    """follow a future / closure value back through moves, `&mut x`, Pin::new_unchecked and into_future to the
    statement or call that created it: ('call', bb, term) | ('agg', bb, stmt) | None"""
    p = _place_of(op)
    if p is None or depth > 12:
        return None
    if [e for e in p["p"] if e != "*"]:
        return None
    d = _single_assign(j, defs, p["l"])
    if d is None:
        return None
    bi, kind, x = d
    if kind == "call":
        f = x["func"]
        nm = f.get("resolved") or f.get("def") or ""
        if re.search(r"::into_future$|Pin::<.*>::new_unchecked$|Pin::<.*>::new$", nm) and x["args"]:
            return _trace_value(j, defs, x["args"][0], depth + 1)
        return ("call", bi, x)
    rv = x["rv"]
    if rv["k"] in ("use", "cast"):
        return _trace_value(j, defs, rv["op"], depth + 1)
    if rv["k"] in ("ref", "rawptr"):
        return _trace_value(j, defs, {"copy": rv["place"]}, depth + 1)
    if rv["k"] == "agg":
        return ("agg", bi, x)
    return None


def _rewrite_env(blk_list, env_local, upvar_locals):
    """in the (already renumbered) callee blocks replace `env.k...` by the local bound to capture k"""
    def fix(p):
        if p["l"] != env_local:
            return
        elems = p["p"]
        i = 0
        while i < len(elems) and elems[i] == "*":
            i += 1
        if i < len(elems) and isinstance(elems[i], dict) and "f" in elems[i] and elems[i]["f"] in upvar_locals:
            p["l"] = upvar_locals[elems[i]["f"]]
            p["p"] = elems[i + 1:]

    def fix_op(o):
        q = _place_of(o)
        if q is not None:
            fix(q)

    for blk in blk_list:
        for st in blk["stmts"]:
            fix(st["dst"])
            if st["k"] != "assign":
                continue
            rv = st["rv"]
            k = rv["k"]
            if k in ("use", "cast", "repeat"):
                fix_op(rv["op"])
            elif k in ("ref", "rawptr", "discr"):
                fix(rv["place"])
            elif k == "bin":
                fix_op(rv["a"]); fix_op(rv["b"])
            elif k == "un":
                fix_op(rv["a"])
            elif k == "agg":
                for o in rv["ops"]:
                    fix_op(o)
        t = blk["term"]
        k = t["k"]
        if k == "switch":
            fix_op(t["discr"])
        elif k == "call":
            if "indirect" in t["func"]:
                fix_op(t["func"]["indirect"])
            for a in t["args"]:
                fix_op(a)
            fix(t["dst"])
        elif k == "drop":
            fix(t["place"])
        elif k == "assert":
            fix_op(t["cond"])
        elif k == "yield":
            fix_op(t["value"])


def _creation_ops(facts, fn_body, child_id):
    """operands of the aggregate that creates coroutine / closure `child_id` in `fn_body`"""
    for blk in fn_body.j["blocks"]:
        for st in blk["stmts"]:
            if st["k"] == "assign" and st["rv"]["k"] == "agg" and st["rv"].get("def") == child_id:
                return st["rv"]["ops"]
    return None


def _root_param(fn_body, op, depth=0):
    p = _place_of(op)
    if p is None or p["p"] or depth > 6:
        return None
    l = p["l"]
    if 1 <= l <= fn_body.arg_count and not fn_body.defs.get(l):
        return l
    ds = fn_body.defs.get(l, [])
    if len(ds) == 1 and ds[0][1] == "assign" and ds[0][2]["rv"]["k"] == "use":
        return _root_param(fn_body, ds[0][2]["rv"]["op"], depth + 1)
    return None


def _splice(j, cj, upvar_ops, at_block, ret_stmt, ret_target, arg_binds=()):
    """append callee blocks/locals (cj) to j; bind captures (index -> operand in j's frame) and parameters
    (callee local -> operand) in block `at_block`, whose terminator becomes a goto to the callee's entry;
    every callee `return` becomes ret_stmt(callee _0 local) + goto ret_target. Returns nothing."""
    loff = len(j["locals"])
    boff = len(j["blocks"])
    for blk in cj["blocks"]:
        _remap_block(blk, loff, boff)
    j["locals"].extend(cj["locals"])
    upl = {}
    stmts = j["blocks"][at_block]["stmts"]
    line = j["blocks"][at_block]["term"].get("line")
    for k, o in sorted(upvar_ops.items()):
        j["locals"].append({"ty": "?capture", "name": None})
        ul = len(j["locals"]) - 1
        upl[k] = ul
        stmts.append({"k": "assign", "dst": {"l": ul, "p": []}, "rv": {"k": "use", "op": copy.deepcopy(o)}, "line": line, "inlined_arg": True})
    for (cl, o) in arg_binds:
        stmts.append({"k": "assign", "dst": {"l": cl + loff, "p": []}, "rv": {"k": "use", "op": copy.deepcopy(o)}, "line": line, "inlined_arg": True})
    _rewrite_env(cj["blocks"], 1 + loff, upl)
    for blk in cj["blocks"]:
        if blk["term"]["k"] == "return":
            blk["stmts"].append(ret_stmt(loff, blk["term"].get("line")))
            blk["term"] = {"k": "goto", "target": ret_target, "line": blk["term"].get("line")}
    j["blocks"].extend(cj["blocks"])
    return boff


def inline_async(facts, body, should_inline, max_rounds=4, max_blocks=6000):
    """In `body`, replace (a) the poll of an awaited local async fn, (b) block_on(<local async block / fn>) and
    (c) a direct call of a local closure by the callee's blocks. The awaiting loop disappears: the callee's
    return writes Poll::Ready(value) and continues at the Ready arm."""
    j = copy.deepcopy(body.j)
    did = False
    for _round in range(max_rounds):
        progressed = False
        defs = _defs_of(j)
        nblocks = len(j["blocks"])
        if nblocks > max_blocks:
            break
        for bi in range(nblocks):
            t = j["blocks"][bi]["term"]
            if t["k"] != "call" or t.get("target") is None:
                continue
            f = t["func"]
            name = f.get("resolved") or f.get("def") or ""
            cb = facts.by_id.get(name) if name else None
            # (a) poll of a local coroutine body: `path::{closure#0}(pin, cx)`
            if cb is not None and cb.kind.startswith("coroutine") and len(t["args"]) == 2 and cb.id != body.id:
                parent = facts.by_id.get(cb.parent) if cb.parent else None
                src = _trace_value(j, defs, t["args"][0])
                if parent is None or src is None or not should_inline(parent):
                    continue
                upvar_ops = {}
                at = None
                if src[0] == "call" and (src[2]["func"].get("resolved") or src[2]["func"].get("def")) == parent.id and parent.kind in ("Fn", "AssocFn"):
                    ops = _creation_ops(facts, facts.inlined.get(parent.id, parent) if hasattr(facts, "inlined") else parent, cb.id)
                    if ops is None:
                        continue
                    okb = True
                    for k, o in enumerate(ops):
                        pj = _root_param(facts.inlined.get(parent.id, parent) if hasattr(facts, "inlined") else parent, o)
                        if pj is None or pj - 1 >= len(src[2]["args"]):
                            okb = False
                            break
                        upvar_ops[k] = src[2]["args"][pj - 1]
                    if not okb:
                        continue
                    at = src[1]
                elif src[0] == "agg" and src[2]["rv"].get("def") == cb.id:
                    upvar_ops = {k: o for k, o in enumerate(src[2]["rv"]["ops"])}
                    at = None   # bind at the poll (the aggregate stays where it is)
                else:
                    continue
                sw = j["blocks"][t["target"]]
                ready = None
                if sw["term"]["k"] == "switch":
                    for v, tg in sw["term"]["arms"]:
                        if v == 0:
                            ready = tg
                if ready is None:
                    continue
                dst = copy.deepcopy(t["dst"])

                def ret_stmt(loff, line, dst=dst):
                    return {"k": "assign", "dst": copy.deepcopy(dst), "line": line, "inlined_ret": True,
                            "rv": {"k": "agg", "agg": "adt", "adt": "std::task::Poll", "variant": "Ready", "variant_idx": 0,
                                   "ops": [{"move": {"l": loff, "p": []}}], "fields": ["0"]}}
                cj = copy.deepcopy((facts.inlined.get(cb.id, cb) if hasattr(facts, "inlined") else cb).j)
                if at is not None:
                    # captures are bound where the future was created; the creating call becomes a plain goto
                    ct = j["blocks"][at]["term"]
                    tmp_stmts = j["blocks"][at]["stmts"]
                    line = ct.get("line")
                    j["locals"].extend([])
                    # bind into fresh locals now, splice later at the poll
                    bound = {}
                    for k, o in sorted(upvar_ops.items()):
                        j["locals"].append({"ty": "?capture", "name": None})
                        ul = len(j["locals"]) - 1
                        tmp_stmts.append({"k": "assign", "dst": {"l": ul, "p": []}, "rv": {"k": "use", "op": copy.deepcopy(o)}, "line": line, "inlined_arg": True})
                        bound[k] = {"move": {"l": ul, "p": []}}
                    j["blocks"][at]["term"] = {"k": "goto", "target": ct["target"], "line": line, "inlined_call": parent.id}
                    upvar_ops = bound
                boff = _splice(j, cj, upvar_ops, bi, ret_stmt, ready, arg_binds=[(2, t["args"][1])] if cb.arg_count >= 2 else [])
                j["blocks"][bi]["term"] = {"k": "goto", "target": boff, "line": t.get("line"), "inlined_call": cb.id}
                progressed = did = True
                defs = _defs_of(j)
                continue
            # (b) block_on(future)
            if re.search(r"task::block_on$|executor::block_on$|task::Builder::blocking$", name) and t["args"]:
                src = _trace_value(j, defs, t["args"][-1])
                cbid = None
                upvar_ops = None
                at = None
                if src is not None and src[0] == "agg" and src[2]["rv"].get("agg") in ("coroutine",):
                    cbid = src[2]["rv"].get("def")
                    upvar_ops = {k: o for k, o in enumerate(src[2]["rv"]["ops"])}
                elif src is not None and src[0] == "call":
                    pid = src[2]["func"].get("resolved") or src[2]["func"].get("def")
                    parent = facts.by_id.get(pid) if pid else None
                    if parent is not None and parent.kind in ("Fn", "AssocFn"):
                        kids = [c for c in facts.children.get(parent.id, []) if c.kind.startswith("coroutine")]
                        if len(kids) == 1:
                            ops = _creation_ops(facts, parent, kids[0].id)
                            if ops is not None:
                                m = {}
                                for k, o in enumerate(ops):
                                    pj = _root_param(parent, o)
                                    if pj is None or pj - 1 >= len(src[2]["args"]):
                                        m = None
                                        break
                                    m[k] = src[2]["args"][pj - 1]
                                if m is not None:
                                    cbid, upvar_ops = kids[0].id, m
                cb2 = facts.by_id.get(cbid) if cbid else None
                if cb2 is None or cb2.id == body.id or not should_inline(cb2):
                    continue
                dst = copy.deepcopy(t["dst"])

                def ret_stmt2(loff, line, dst=dst):
                    return {"k": "assign", "dst": copy.deepcopy(dst), "line": line, "inlined_ret": True,
                            "rv": {"k": "use", "op": {"move": {"l": loff, "p": []}}}}
                cj = copy.deepcopy(cb2.j)
                boff = _splice(j, cj, upvar_ops, bi, ret_stmt2, t["target"])
                j["blocks"][bi]["term"] = {"k": "goto", "target": boff, "line": t.get("line"), "inlined_call": cb2.id}
                progressed = did = True
                defs = _defs_of(j)
                continue
            # (c) direct call of a local closure value
            if re.search(r"FnOnce<.*>>::call_once$|Fn<.*>>::call$|FnMut<.*>>::call_mut$|::call_once$|::call_mut$|ops::Fn.*::call$", name) or (cb is not None and cb.kind.startswith("closure")):
                if not t["args"]:
                    continue
                src = _trace_value(j, defs, t["args"][0])
                if src is None or src[0] != "agg" or src[2]["rv"].get("agg") != "closure":
                    continue
                cb3 = facts.by_id.get(src[2]["rv"].get("def"))
                if cb3 is None or cb3.id == body.id or not should_inline(cb3):
                    continue
                upvar_ops = {k: o for k, o in enumerate(src[2]["rv"]["ops"])}
                binds = []
                if len(t["args"]) >= 2 and cb3.arg_count >= 2:
                    tp = _place_of(t["args"][1])
                    td = _single_assign(j, defs, tp["l"]) if tp is not None and not tp["p"] else None
                    if td is not None and td[1] == "assign" and td[2]["rv"]["k"] == "agg" and td[2]["rv"].get("agg") == "tuple":
                        for i, o in enumerate(td[2]["rv"]["ops"][: cb3.arg_count - 1]):
                            binds.append((2 + i, o))
                    elif tp is not None:
                        for i in range(cb3.arg_count - 1):
                            binds.append((2 + i, {"move": {"l": tp["l"], "p": tp["p"] + [{"f": i}]}}))
                dst = copy.deepcopy(t["dst"])

                def ret_stmt3(loff, line, dst=dst):
                    return {"k": "assign", "dst": copy.deepcopy(dst), "line": line, "inlined_ret": True,
                            "rv": {"k": "use", "op": {"move": {"l": loff, "p": []}}}}
                cj = copy.deepcopy(cb3.j)
                boff = _splice(j, cj, upvar_ops, bi, ret_stmt3, t["target"], arg_binds=binds)
                j["blocks"][bi]["term"] = {"k": "goto", "target": boff, "line": t.get("line"), "inlined_call": cb3.id}
                progressed = did = True
                defs = _defs_of(j)
                continue
        if not progressed:
            break
    if not did:
        return body
    nb = Body(j, facts)
    nb.inlined = True
    return nb


# ---------------------------------------------------------------------------------------------
# std combinators that take a closure literal, rewritten as the explicit control flow they stand for

_OPT = ("std::option::Option<", "core::option::Option<")
_RES = ("std::result::Result<", "core::result::Result<")


def _new_local(j, ty, name=None):
    j["locals"].append({"ty": ty, "name": name})
    return len(j["locals"]) - 1


def _new_block(j, stmts, term):
    j["blocks"].append({"stmts": stmts, "term": term, "cleanup": False})
    return len(j["blocks"]) - 1


def _mv(l, proj=()):
    return {"move": {"l": l, "p": list(proj)}}


def _assign(dst_place, rv, line):
    return {"k": "assign", "dst": copy.deepcopy(dst_place), "rv": rv, "line": line, "synthetic": True}


def _agg(adt, variant, idx, ops):
    return {"k": "agg", "agg": "adt", "adt": adt, "variant": variant, "variant_idx": idx, "ops": ops, "fields": ["0"] if ops else []}


def _closure_of(facts, j, defs, op, extern_ok=False):
    c = op.get("const") if isinstance(op, dict) else None
    if c is not None and c.get("fn"):
        # a function item used as the closure: `iter.any(needs_reference)`
        fb = facts.by_id.get(c["fn"])
        if fb is not None and fb.kind in ("Fn", "AssocFn") and not any(x.kind.startswith("coroutine") for x in facts.children.get(fb.id, [])):
            return fb, {}
        if fb is None and extern_ok and re.match(r"^(std|core|alloc)::", c["fn"]):
            return _ExternFn(c["fn"]), {}
        return None, None
    src = _trace_value(j, defs, op)
    if src is None or src[0] != "agg" or src[2]["rv"].get("agg") != "closure":
        return None, None
    cb = facts.by_id.get(src[2]["rv"].get("def"))
    if cb is None:
        return None, None
    return cb, {k: o for k, o in enumerate(src[2]["rv"]["ops"])}


class _ExternFn:
    """a function item that is not defined in this crate (`String::new`, `Vec::new`, `Default::default` ...) used
    where a closure is expected: desugared into an ordinary call of it"""
    def __init__(self, name):
        self.name = name
        self.id = name
        self.kind = "extern-fn"


def _call_external(j, fn, at_block, args, dst_place, cont, line):
    j["blocks"][at_block]["term"] = {"k": "call", "line": line, "fn_line": line, "synthetic": True,
                                     "func": {"def": fn.name, "full": fn.name, "krate": fn.name.split("::")[0], "local": False, "gargs": [],
                                              "resolved": fn.name, "resolved_full": fn.name, "resolved_kind": "Item"},
                                     "args": [copy.deepcopy(a) for a in args], "dst": copy.deepcopy(dst_place), "target": cont}


def _call_closure(facts, j, cb, upvar_ops, at_block, args, dst_place, cont, line):
    if isinstance(cb, _ExternFn):
        return _call_external(j, cb, at_block, args, dst_place, cont, line)
    """make block `at_block` jump into closure cb(args..) whose result goes to dst_place, continuing at `cont`"""
    cj = copy.deepcopy((facts.inlined.get(cb.id, cb) if hasattr(facts, "inlined") else cb).j)

    def ret_stmt(loff, ln, dst=dst_place):
        return _assign(dst, {"k": "use", "op": _mv(loff)}, ln)
    first = 2 if cb.kind.startswith("closure") else 1      # a closure's first local is its environment
    binds = [(first + i, a) for i, a in enumerate(args[: max(0, cb.arg_count - (first - 1))])]
    boff = _splice(j, cj, upvar_ops, at_block, ret_stmt, cont, arg_binds=binds)
    j["blocks"][at_block]["term"] = {"k": "goto", "target": boff, "line": line, "inlined_call": cb.id}


def _ty_of(j, op):
    p = _place_of(op)
    if p is None or p["p"]:
        return ""
    return j["locals"][p["l"]]["ty"]


def desugar_combinators(facts, body, max_rounds=3, max_blocks=6000, iterators=True):
    """Replace calls of Option / Result / Iterator / bool combinators whose closure argument is a closure literal of
    this crate by the control flow they abbreviate (match / loop), with the closure's body spliced in. Rules written
    for `match x { Some(v) => .., None => .. }` and `for e in it { if p(e) { return true } }` then apply unchanged to
    `x.and_then(..)`, `x.map_or(d, ..)`, `it.any(..)`, `it.all(..)`, `it.find_map(..)`."""
    j = copy.deepcopy(body.j)
    did = False
    for _round in range(max_rounds):
        progressed = False
        defs = _defs_of(j)
        nblocks = len(j["blocks"])
        if nblocks > max_blocks:
            break
        for bi in range(nblocks):
            t = j["blocks"][bi]["term"]
            if t["k"] != "call" or t.get("target") is None or t["func"].get("local"):
                continue
            name = t["func"].get("resolved") or t["func"].get("def") or ""
            m = re.search(r"(Option|Result)::<.*>::(and_then|map|map_err|map_or|map_or_else|unwrap_or_else|ok_or_else|is_some_and|is_ok_and|is_none_or)$", name)
            line = t.get("line")
            dst, cont, args = t["dst"], t["target"], t["args"]
            if m and args:
                kind, op = m.group(1), m.group(2)
                recv = _place_of(args[0])
                if recv is None or recv["p"]:
                    continue
                rty = j["locals"][recv["l"]]["ty"]
                is_opt = rty.startswith(_OPT)
                is_res = rty.startswith(_RES)
                if not (is_opt or is_res):
                    continue
                good_idx = 1 if is_opt else 0            # Some / Ok
                bad_idx = 1 - good_idx
                good_v, bad_v = ("Some", "None") if is_opt else ("Ok", "Err")
                adt = "std::option::Option" if is_opt else "std::result::Result"
                fpos = {"map_or": 2, "map_or_else": 2}.get(op, 1)
                if len(args) <= fpos:
                    continue
                cb, ups = _closure_of(facts, j, defs, args[fpos], extern_ok=op in ("map", "map_err", "map_or", "map_or_else", "and_then"))
                cb2 = ups2 = None
                if op == "map_or_else":
                    cb2, ups2 = _closure_of(facts, j, defs, args[1], extern_ok=True)
                    if cb2 is None:
                        continue
                if cb is None:
                    continue
                x = _new_local(j, "?payload")
                good_payload = _mv(recv["l"], [{"downcast": good_idx, "name": good_v}, {"f": 0}])
                bad_payload = _mv(recv["l"], [{"downcast": bad_idx, "name": bad_v}, {"f": 0}])
                dstl = copy.deepcopy(dst)
                # result of the closure goes to tmp r; arms build dst
                r = _new_local(j, "?closure-result")
                rp = {"l": r, "p": []}
                on_bad_closure = op in ("map_err", "unwrap_or_else", "ok_or_else", "map_or_else")
                # --- the arm in which the main closure runs
                after = _new_block(j, [], {"k": "goto", "target": cont, "line": line})
                run = _new_block(j, [], {"k": "goto", "target": after, "line": line})
                other = _new_block(j, [], {"k": "goto", "target": cont, "line": line})
                if op in ("and_then", "map", "map_or", "map_or_else", "is_some_and", "is_ok_and", "is_none_or"):
                    run_idx = good_idx
                    j["blocks"][run]["stmts"].append(_assign({"l": x, "p": []}, {"k": "use", "op": good_payload}, line))
                    _call_closure(facts, j, cb, ups, run, [_mv(x)], rp, after, line)
                    if op in ("and_then", "map_or", "map_or_else", "is_some_and", "is_ok_and", "is_none_or"):
                        j["blocks"][after]["stmts"].append(_assign(dstl, {"k": "use", "op": _mv(r)}, line))
                    else:   # map
                        j["blocks"][after]["stmts"].append(_assign(dstl, _agg(adt, good_v, good_idx, [_mv(r)]), line))
                    # the other arm
                    if op == "and_then" or op == "map":
                        j["blocks"][other]["stmts"].append(_assign(dstl, _agg(adt, bad_v, bad_idx, [] if is_opt else [bad_payload]), line))
                    elif op == "map_or":
                        j["blocks"][other]["stmts"].append(_assign(dstl, {"k": "use", "op": copy.deepcopy(args[1])}, line))
                    elif op == "map_or_else":
                        _call_closure(facts, j, cb2, ups2, other, [] if is_opt else [bad_payload], dstl, cont, line)
                    elif op in ("is_some_and", "is_ok_and"):
                        j["blocks"][other]["stmts"].append(_assign(dstl, {"k": "use", "op": {"const": {"ty": "bool", "int": 0, "text": "false"}}}, line))
                    elif op == "is_none_or":
                        j["blocks"][other]["stmts"].append(_assign(dstl, {"k": "use", "op": {"const": {"ty": "bool", "int": 1, "text": "true"}}}, line))
                else:
                    run_idx = bad_idx
                    if not is_opt:
                        j["blocks"][run]["stmts"].append(_assign({"l": x, "p": []}, {"k": "use", "op": bad_payload}, line))
                    _call_closure(facts, j, cb, ups, run, [] if is_opt else [_mv(x)], rp, after, line)
                    if op == "map_err":
                        j["blocks"][after]["stmts"].append(_assign(dstl, _agg(adt, "Err", 1, [_mv(r)]), line))
                        j["blocks"][other]["stmts"].append(_assign(dstl, _agg(adt, "Ok", 0, [good_payload]), line))
                    elif op == "unwrap_or_else":
                        j["blocks"][after]["stmts"].append(_assign(dstl, {"k": "use", "op": _mv(r)}, line))
                        j["blocks"][other]["stmts"].append(_assign(dstl, {"k": "use", "op": good_payload}, line))
                    elif op == "ok_or_else":
                        j["blocks"][after]["stmts"].append(_assign(dstl, _agg("std::result::Result", "Err", 1, [_mv(r)]), line))
                        j["blocks"][other]["stmts"].append(_assign(dstl, _agg("std::result::Result", "Ok", 0, [good_payload]), line))
                d = _new_local(j, "isize")
                j["blocks"][bi]["stmts"].append({"k": "assign", "dst": {"l": d, "p": []}, "rv": {"k": "discr", "place": {"l": recv["l"], "p": []}}, "line": line, "synthetic": True})
                j["blocks"][bi]["term"] = {"k": "switch", "discr": _mv(d), "arms": [[run_idx, run], [1 - run_idx, other]], "otherwise": other, "line": line, "desugared": name}
                progressed = did = True
                defs = _defs_of(j)
                continue
            m = re.search(r"Iterator>?::(any|all|find_map|find)$|iter::Iterator::(any|all|find_map|find)$", name) if iterators else None
            if m and len(args) >= 2:
                op = m.group(1) or m.group(2)
                cb, ups = _closure_of(facts, j, defs, args[1])
                if cb is None:
                    continue
                ity = re.sub(r"^&\s*('\w+\s+)?(mut\s+)?", "", _ty_of(j, args[0]))
                n = _new_local(j, "std::option::Option<?item>")
                x = _new_local(j, "?item")
                r = _new_local(j, "bool" if op in ("any", "all", "find") else "std::option::Option<?>")
                d = _new_local(j, "isize")
                dstl = copy.deepcopy(dst)
                itop = {"copy": copy.deepcopy(_place_of(args[0]))}
                done_hit = _new_block(j, [], {"k": "goto", "target": cont, "line": line})
                done_end = _new_block(j, [], {"k": "goto", "target": cont, "line": line})
                test = _new_block(j, [], {"k": "goto", "target": done_hit, "line": line})
                some = _new_block(j, [_assign({"l": x, "p": []}, {"k": "use", "op": _mv(n, [{"downcast": 1, "name": "Some"}, {"f": 0}])}, line)],
                                  {"k": "goto", "target": test, "line": line})
                sw = _new_block(j, [{"k": "assign", "dst": {"l": d, "p": []}, "rv": {"k": "discr", "place": {"l": n, "p": []}}, "line": line, "synthetic": True}],
                                {"k": "switch", "discr": _mv(d), "arms": [[0, done_end], [1, some]], "otherwise": done_end, "line": line})
                head = _new_block(j, [], {"k": "call", "func": {"def": "std::iter::Iterator::next", "resolved": "<%s as std::iter::Iterator>::next" % re.sub(r"<.*>", "<T>", ity.split("<")[0] + ("<T>" if "<" in ity else "")),
                                                                "full": "<%s as std::iter::Iterator>::next" % ity, "resolved_full": "<%s as std::iter::Iterator>::next" % ity,
                                                                "local": False, "krate": "core"},
                                          "args": [itop], "dst": {"l": n, "p": []}, "target": sw, "unwind": None, "line": line, "desugared": name})
                if op == "find":
                    rx = _new_local(j, "&?item")
                    j["blocks"][some]["stmts"].append(_assign({"l": rx, "p": []}, {"k": "ref", "mut": False, "place": {"l": x, "p": []}}, line))
                    _call_closure(facts, j, cb, ups, some, [_mv(rx)], {"l": r, "p": []}, test, line)
                else:
                    _call_closure(facts, j, cb, ups, some, [_mv(x)], {"l": r, "p": []}, test, line)
                if op in ("any", "all", "find"):
                    hit_val = 1 if op in ("any", "find") else 0
                    j["blocks"][test]["term"] = {"k": "switch", "discr": {"copy": {"l": r, "p": []}}, "arms": [[0, head if hit_val == 1 else done_hit]],
                                                 "otherwise": done_hit if hit_val == 1 else head, "line": line}
                    if op == "any":
                        j["blocks"][done_hit]["stmts"].append(_assign(dstl, {"k": "use", "op": {"const": {"ty": "bool", "int": 1, "text": "true"}}}, line))
                        j["blocks"][done_end]["stmts"].append(_assign(dstl, {"k": "use", "op": {"const": {"ty": "bool", "int": 0, "text": "false"}}}, line))
                    elif op == "all":
                        j["blocks"][done_hit]["stmts"].append(_assign(dstl, {"k": "use", "op": {"const": {"ty": "bool", "int": 0, "text": "false"}}}, line))
                        j["blocks"][done_end]["stmts"].append(_assign(dstl, {"k": "use", "op": {"const": {"ty": "bool", "int": 1, "text": "true"}}}, line))
                    else:
                        j["blocks"][done_hit]["stmts"].append(_assign(dstl, _agg("std::option::Option", "Some", 1, [_mv(x)]), line))
                        j["blocks"][done_end]["stmts"].append(_assign(dstl, _agg("std::option::Option", "None", 0, []), line))
                else:   # find_map
                    d2 = _new_local(j, "isize")
                    j["blocks"][test]["stmts"].append({"k": "assign", "dst": {"l": d2, "p": []}, "rv": {"k": "discr", "place": {"l": r, "p": []}}, "line": line, "synthetic": True})
                    j["blocks"][test]["term"] = {"k": "switch", "discr": _mv(d2), "arms": [[0, head], [1, done_hit]], "otherwise": head, "line": line}
                    j["blocks"][done_hit]["stmts"].append(_assign(dstl, {"k": "use", "op": _mv(r)}, line))
                    j["blocks"][done_end]["stmts"].append(_assign(dstl, _agg("std::option::Option", "None", 0, []), line))
                j["blocks"][bi]["term"] = {"k": "goto", "target": head, "line": line, "desugared": name}
                progressed = did = True
                defs = _defs_of(j)
                continue
        if not progressed:
            break
    if not did:
        return body
    nb = Body(j, facts)
    nb.inlined = True
    return nb
