"""CFG-level inlining of small local helper functions into an anchored function, so that path
and provenance rules see the same flat control flow whether or not a maintainer split the
function into helpers. Only synchronous, non-recursive helpers are inlined; the result is a new
Body over merged JSON (locals and blocks of the callee are appended and renumbered)."""
import copy
from .facts import Body


def _remap_place(p, loff):
    p["l"] += loff
    for e in p["p"]:
        if isinstance(e, dict) and "idx" in e:
            e["idx"] += loff


def _remap_op(o, loff):
    if o is None:
        return
    for k in ("copy", "move"):
        if k in o:
            _remap_place(o[k], loff)


def _remap_rv(rv, loff):
    k = rv["k"]
    if k in ("use", "cast", "repeat"):
        _remap_op(rv["op"], loff)
    elif k in ("ref", "rawptr", "discr"):
        _remap_place(rv["place"], loff)
    elif k == "bin":
        _remap_op(rv["a"], loff)
        _remap_op(rv["b"], loff)
    elif k == "un":
        _remap_op(rv["a"], loff)
    elif k == "agg":
        for o in rv["ops"]:
            _remap_op(o, loff)


def _remap_block(blk, loff, boff):
    for st in blk["stmts"]:
        _remap_place(st["dst"], loff)
        if st["k"] == "assign":
            _remap_rv(st["rv"], loff)
    t = blk["term"]
    k = t["k"]
    for key in ("target", "otherwise", "unwind", "drop", "false_edge"):
        if isinstance(t.get(key), int):
            t[key] += boff
    if k == "switch":
        _remap_op(t["discr"], loff)
        t["arms"] = [[a[0], a[1] + boff] for a in t["arms"]]
    elif k == "call":
        f = t["func"]
        if "indirect" in f:
            _remap_op(f["indirect"], loff)
        for a in t["args"]:
            _remap_op(a, loff)
        _remap_place(t["dst"], loff)
    elif k == "drop":
        _remap_place(t["place"], loff)
    elif k == "assert":
        _remap_op(t["cond"], loff)
    elif k == "yield":
        _remap_op(t["value"], loff)


def inline_calls(facts, body, should_inline, max_depth=3):
    """returns a Body in which calls to functions selected by should_inline(callee_body) are replaced
    by the callee's blocks (recursively up to max_depth). Returns the original body when nothing
    was inlined."""
    j = copy.deepcopy(body.j)
    did = False
    for _round in range(max_depth):
        progressed = False
        nblocks = len(j["blocks"])
        for bi in range(nblocks):
            t = j["blocks"][bi]["term"]
            if t["k"] != "call":
                continue
            f = t["func"]
            name = f.get("resolved") or f.get("def")
            cb = facts.by_id.get(name) if name else None
            if cb is None or cb.id == body.id or not should_inline(cb):
                continue
            if t.get("target") is None:
                continue
            cj = copy.deepcopy(cb.j)
            loff = len(j["locals"])
            boff = len(j["blocks"])
            for blk in cj["blocks"]:
                _remap_block(blk, loff, boff)
            # bind arguments
            stmts = j["blocks"][bi]["stmts"]
            for k, a in enumerate(t["args"]):
                stmts.append({"k": "assign", "dst": {"l": loff + 1 + k, "p": []}, "rv": {"k": "use", "op": a}, "line": t.get("line"), "inlined_arg": True})
            dst, target = t["dst"], t["target"]
            # returns -> write the destination and continue after the call
            for blk in cj["blocks"]:
                if blk["term"]["k"] == "return":
                    blk["stmts"].append({"k": "assign", "dst": copy.deepcopy(dst), "rv": {"k": "use", "op": {"move": {"l": loff, "p": []}}}, "line": blk["term"].get("line"), "inlined_ret": True})
                    blk["term"] = {"k": "goto", "target": target, "line": blk["term"].get("line")}
            j["blocks"][bi]["term"] = {"k": "goto", "target": boff, "line": t.get("line"), "inlined_call": name}
            # callee parameters are ordinary locals now
            j["locals"].extend(cj["locals"])
            j["blocks"].extend(cj["blocks"])
            progressed = True
            did = True
        if not progressed:
            break
    if not did:
        return body
    nb = Body(j, facts)
    nb.inlined = True
    return nb
