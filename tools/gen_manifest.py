#!/usr/bin/env python3
"""Writes /verif/MANIFEST.json from the table below (one entry per property that has a rule
module in sa/rules/; everything else is listed under not_applicable)."""
import json
import os

V = os.path.dirname(os.path.dirname(os.path.abspath(__file__)))

TRUST = ("Trusted base: rustc nightly's front end and `mir_built`; the mirfacts exporter and the Python rule engine "
         "(validated both ways by the seeded variants in seeded/ and, in the thorough tier, by self-validation mutants); "
         "the external-API classification in sa/fsapi.py; std/crate contracts named in the evidence file's assumptions. "
         "Anchored functions are found by path: renaming or restructuring one is reported (fail-closed), never silently accepted.")

P = {
    "C01": dict(
        technique="MIR dataflow: provenance of every inserted ID and of the counter start, fold-structure and guard-set rules on the max scan, checked-arithmetic audit (rustc_private driver + rule engine)",
        text="Decides the premises of the uniqueness argument on the code itself, for all inputs: one shared atomic counter feeds every token; "
             "its start is the lock value or max+1 of a scan whose only guards are `usable` and `reference is Some`; every arithmetic step on an ID "
             "is a checked idiom whose failure arm ends in an error. The step from these premises to the statement is a prose argument (DESIGN §4 C01).",
        ref="DESIGN.md §4 C01"),
    "C02": dict(
        technique="MIR path + provenance rules on the edit driver and the lock reader/writer: value-covers, must-pass-through of the lock write on every exit, write-ahead order, in-place vs rename, closed writer set",
        text="Decides the premises of the inductive lock invariant on every exit path of the edit driver; the three premises that today's tree "
             "violates (no write-ahead, in-place lock write, ignored write failure) are recorded as known findings with their failing histories.",
        ref="DESIGN.md §4 C02"),
    "C04": dict(
        technique="who-may-call reachability over the monomorphic call graph (rustc Instance resolution) against a fail-closed classification of filesystem APIs",
        text="Whole property: with the edit-only region of every branch on check_mode removed, no API that can create, write, rename, truncate or "
             "remove a file is reachable from main. Holds for every tree and configuration because it does not depend on inputs.",
        ref="DESIGN.md §4 C04"),
    "C07": dict(
        technique="publish-protocol rules on MIR: closed set of mutating call sites with path-operand provenance; must-pass-through flush+fsync between every write and the single rename; Err arms cut off from the rename (variant-tracking path exploration)",
        text="Decides that a source path is only ever the destination of one rename from a completely written, flushed and fsynced scratch file, "
             "and that no failed step reaches the rename — for every crash/fault point, because the rule quantifies over all CFG paths.",
        ref="DESIGN.md §4 C07"),
    "C08": dict(
        technique="error-discipline rules on MIR: Err arm of every storage step reaches only failure results; OR-fold structure of reduce; flag tested on all paths to success; RAII cleanup",
        text="Decides, for every storage step and every path, that a failure sets the flag, the flag is reduced over all files, the driver turns it "
             "into Err and main into a non-zero exit; scratch files are removed by Drop.",
        ref="DESIGN.md §4 C08"),
    "C03": dict(
        technique="structural proof of the copy-through loop invariant on MIR: census and data provenance of the scratch writes, single cursor with an affine update equal to the copy's end, ordering and guarded tail; decision table + templates of the token renderer",
        text="Decides on the code, for all file contents, that the bytes written with the token writes deleted are contents[0..cursor] and equal the "
             "whole contents at the rename: slices come from the file's own bytes, the cursor's only update is the end of the copy just written, "
             "the tail is copied unless cursor >= len, and what is written is exactly what read_to_string returned.",
        ref="DESIGN.md §4 C03"),
    "C05": dict(
        technique="RK4 decision-table extraction (path enumeration over boolean atoms, no solver) of the four sibling 'missing' predicates + co-derivation of offset/line/column from one span + verdict/sum shape rules",
        text="Decides sibling agreement of the scan, check and insert predicates on all feasible valuations (any extra condition surfaces as an opaque atom), "
             "that every reported location and every insertion offset come from the same pest span with the same constant shift, and the `count > 0` verdict. "
             "pest's line_col contract (characters, 1-based, CRLF) is trusted, not re-derived.",
        ref="DESIGN.md §4 C05"),
    "C06": dict(
        technique="writer/reader agreement: automata inclusion (message token, exact for all 2^32 ids), shared-key provenance + grammar attributes (key-value token), anchor-is-kv-slot, counter-steps-only-with-token path rule",
        text="Decides the round trip exactly for the message token and structurally for the key-value token, and the idempotence structure (early exit, counter "
             "stepped only where a token write follows, lock = counter). That every rewritten statement is still recognised for arbitrary statement shapes is "
             "PEG acceptance of rewritten text and is NOT claimed beyond these parts.",
        ref="DESIGN.md §4 C06",
        note="Partial: clause level for the 'still recognised' part."),
    "C09": dict(
        technique="necessary-condition rules: inertness of the token's literal pieces, anchor inside the quotes, key-value token built from constants only (provenance) at a legal slot (C13 + grammar G10/G14)",
        text="CLAUSE LEVEL ONLY. Decides necessary conditions of behaviour preservation; the property proper (rustc's verdict on edited programs and equality of "
             "emitted log records) quantifies over programs and executions and is not decidable by static analysis of breadlog — that part is declined.",
        ref="DESIGN.md §4 C09",
        note="Partial claim: only the structural clauses named in the evidence are decided."),
    "C10": dict(
        technique="grammar attribute rules (nullable/FIRST/vocab/produces/rule type/element order from pest_meta's AST) + decision shape of the macro filter + anchor provenance on MIR",
        text="CLAUSE LEVEL ONLY. Decides grammar attributes each of which is a necessary condition of canonical recognition (with a concrete counter-input when false), "
             "the two-form exact macro filter over all configured macros, and the anchors. Inclusion of the canonical statement language in the PEG's language for "
             "arbitrary surroundings is not decidable without executing the grammar and is declined; one known finding (strings in the scan loop).",
        ref="DESIGN.md §4 C10",
        note="Partial claim."),
    "C11": dict(
        technique="grammar attribute rules (COMMENT shape incl. end of input, mandatory literal, FIRST sets) + exact-match macro filter and must-pass-through before entry construction on MIR",
        text="CLAUSE LEVEL ONLY. Decides the comment rule's shape including the end-of-input case, that a literal message is mandatory, that an escaped quote can never "
             "follow `(`, and that every entry is preceded by a whole-string-equality filter. Placement of decoys in arbitrary surroundings is PEG behaviour and is declined.",
        ref="DESIGN.md §4 C11",
        note="Partial claim."),
    "C12": dict(
        technique="regex language equivalence by DFA product (regex-automata with the program's regex-syntax version) on the literal extracted from MIR + value-path provenance (group 1 -> parse::<u32> -> Some) + token ⊆ regex inclusion",
        text="Decides the whole accept/reject boundary: the extraction regex is language-equivalent to the specification (a distinguishing string is printed otherwise), "
             "anchored, one group spanning the digits; the value is exactly parse::<u32> of group 1; the single call site applies it to the literal's inner text; "
             "every token breadlog writes is accepted, for all 2^32 values.",
        ref="DESIGN.md §4 C12"),
    "C13": dict(
        technique="decision tables of the structured branch on MIR (key comparison, value match, parse, break-after-first, separator selection, prefix template), usable() table, target-aware anchor data flow, grammar G6/G9/G10/G14/G15",
        text="Decides the key search, the unusable rule, the separator table, the anchor after the target argument and the branch selection for all statements, "
             "as shapes of the finder's code; the log crate's kv grammar is taken from the statement.",
        ref="DESIGN.md §4 C13"),
    "C14": dict(
        technique="constants + automata (directive texts, comment regex), normalisation-chain provenance, shape of the backward line scan (no path back to the iterator after the first non-blank line), must-pass-through of the ignore check before any push, char-boundary rule",
        text="Decides the directive texts and comment regex exactly, case/trim normalisation, that only the nearest non-blank line can decide, that every statement passes "
             "the ignore check before an entry exists, and that the scan's slice end is a char boundary. Whether 'nearest non-blank line' matches a human's reading of every layout is not claimed.",
        ref="DESIGN.md §4 C14"),
    "C15": dict(
        technique="idiom + provenance rules on MIR: walk root and adapters, no-follow regular-file idiom, Path::extension → String → Vec<String>::contains chain without folding, path provenance of source_dir / config_dir / lock, unreachability of current_dir",
        text="Decides which files can enter the list and where every path comes from, for all layouts: these are properties of the finder's and the context's code, not of inputs. "
             "walkdir's and std::path's documented behaviour is trusted.",
        ref="DESIGN.md §4 C15"),
    "C16": dict(
        technique="constants and call edges of the serde defaults in the expanded derive code; dominance of use_cache over every lock-path access; error-exit dominance over passes, counter and lock write",
        text="Decides the default values and their wiring, that nothing touches the lock path unless use_cache is true, that an unparsable lock falls back to the scan, and that "
             "configuration / discovery errors end in Err before any effect. serde's default-attribute contract is trusted (the call edge is checked).",
        ref="DESIGN.md §4 C16"),
    "C17": dict(
        technique="RK7 panic-site audit over MIR (Assert terminators + may-panic std calls) with guard idioms and a reviewed table keyed without line numbers; grammar recursion/exhaustiveness; unreadable-file skip path; thorough: clippy restriction lints as independent enumerator",
        text="PANIC CLAUSE FOR BREADLOG'S OWN HAND-WRITTEN CODE ONLY: every potential panic site is enumerated and must be discharged by a dominating guard or a reviewed row; "
             "a new site or a lost guard is reported. The grammar has no recursion. NOT claimed: bounded run time (pest backtracking is data dependent), panics inside dependencies, memory exhaustion.",
        ref="DESIGN.md §4 C17",
        note="Partial claim: hangs and dependency panics are outside what static analysis of this crate can bound."),
    "C18": dict(
        technique="constant evaluation of the registered signal set at the registration site(s) + MIR path rules (poll before every file, stop ⇒ None ⇒ Err, registration before dispatch)",
        text="Decides which signals are wired to the stop flag (constants evaluated by rustc), that the flag is polled before each file, and that an "
             "observed stop can only end in a non-zero exit in both modes; files-whole and lock-covers premises are re-run from C07/C02.",
        ref="DESIGN.md §4 C18"),
}

NA_DEFAULT = "rule module not built yet (work in progress); planned rules are in DESIGN.md §4"


def main():
    props = [json.loads(l)["id"] for l in open(os.path.join(V, "properties.jsonl"))]
    checks = []
    na = []
    for pid in props:
        have = os.path.exists(os.path.join(V, "sa", "rules", pid.lower() + ".py"))
        if pid in P and have:
            e = P[pid]
            checks.append({
                "property_id": pid,
                "quick_cmd": "./check %s quick" % pid,
                "thorough_cmd": "./check %s thorough" % pid,
                "evidence_file": "evidence/%s.json" % pid,
                "replay_cmd_template": "cat {path}",
                "engine": "mirfacts+sa",
                "level_claimed": {"category": "other", "text": e["text"], "design_ref": e["ref"]},
                "level_note": (e.get("note", "") + " " + TRUST).strip(),
                "technique": e["technique"],
            })
        else:
            na.append({"property_id": pid, "reason": P.get(pid, {}).get("na", NA_DEFAULT)})
    m = {
        "version": 1,
        "setup_cmd": "./setup.sh",
        "hooks": {
            "guard": "breadlog_verif",
            "enable": "none: the static analysis reads the unmodified crate through a RUSTC_WORKSPACE_WRAPPER; /repo contains no hooks",
            "baseline_off_cmd": "cd /repo && cargo test --workspace --no-fail-fast --offline",
            "source_commits": [],
            "add_only": True,
        },
        "engines": [
            {"name": "mirfacts", "path": "tools/mirfacts", "kind_free_text": "rustc_private driver (nightly): exports mir_built of every body, evaluated constants and the monomorphic call graph as JSON", "serves_properties": props},
            {"name": "sa", "path": "sa", "kind_free_text": "Python rule engine: CFG/dominators/variant-tracking path exploration, provenance, call-graph reachability, per-property rules", "serves_properties": props},
            {"name": "grammarfacts", "path": "tools/stable", "kind_free_text": "pest_meta AST of rust_grammar.pest as JSON; grammar attributes (nullable, FIRST, vocab, produces) computed in sa/grammar.py", "serves_properties": ["C06", "C09", "C10", "C11", "C13", "C17"]},
            {"name": "rxtool", "path": "tools/stable", "kind_free_text": "regex language decisions (DFA product over regex-automata dense DFAs built with the program's regex-syntax version)", "serves_properties": ["C06", "C09", "C12", "C14"]},
        ],
        "checks": checks,
        "notes": "Static analysis only: no check runs breadlog, its tests or its parser. Known findings: known_findings.json. Seeded variants: seeded/.",
        "not_applicable": na,
    }
    json.dump(m, open(os.path.join(V, "MANIFEST.json"), "w"), indent=1)
    print("MANIFEST: %d checks, %d not_applicable" % (len(checks), len(na)))


if __name__ == "__main__":
    main()
