#!/usr/bin/env python3
"""Writes /verif/MANIFEST.json from the table below (one entry per property that has a rule
module in sa/rules/; everything else is listed under not_applicable)."""
import json
import os

V = os.path.dirname(os.path.dirname(os.path.abspath(__file__)))

TRUST = ("Trusted base: rustc nightly's front end and `mir_built`; the mirfacts exporter and the Python rule engine "
         "(validated both ways by the seeded variants in seeded/ and, in the thorough tier, by self-validation mutants); "
         "the external-API classification in sa/fsapi.py; std/crate contracts named in the evidence file's assumptions. "
         "Anchored functions are found by path: renaming or restructuring one is reported (fail-closed), never silently accepted.")

P = {
    "C01": dict(
        technique="MIR dataflow: provenance of every inserted ID and of the counter start, fold-structure and guard-set rules on the max scan, checked-arithmetic audit (rustc_private driver + rule engine)",
        text="Decides the premises of the uniqueness argument on the code itself, for all inputs: one shared atomic counter feeds every token; "
             "its start is the lock value or max+1 of a scan whose only guards are `usable` and `reference is Some`; every arithmetic step on an ID "
             "is a checked idiom whose failure arm ends in an error. The step from these premises to the statement is a prose argument (DESIGN §4 C01).",
        ref="DESIGN.md §4 C01"),
    "C02": dict(
        technique="MIR path + provenance rules on the edit driver and the lock reader/writer: value-covers, must-pass-through of the lock write on every exit, write-ahead order, in-place vs rename, closed writer set",
        text="Decides the premises of the inductive lock invariant on every exit path of the edit driver; the three premises that today's tree "
             "violates (no write-ahead, in-place lock write, ignored write failure) are recorded as known findings with their failing histories.",
        ref="DESIGN.md §4 C02"),
    "C04": dict(
        technique="who-may-call reachability over the monomorphic call graph (rustc Instance resolution) against a fail-closed classification of filesystem APIs",
        text="Whole property: with the edit-only region of every branch on check_mode removed, no API that can create, write, rename, truncate or "
             "remove a file is reachable from main. Holds for every tree and configuration because it does not depend on inputs.",
        ref="DESIGN.md §4 C04"),
    "C07": dict(
        technique="publish-protocol rules on MIR: closed set of mutating call sites with path-operand provenance; must-pass-through flush+fsync between every write and the single rename; Err arms cut off from the rename (variant-tracking path exploration)",
        text="Decides that a source path is only ever the destination of one rename from a completely written, flushed and fsynced scratch file, "
             "and that no failed step reaches the rename — for every crash/fault point, because the rule quantifies over all CFG paths.",
        ref="DESIGN.md §4 C07"),
    "C08": dict(
        technique="error-discipline rules on MIR: Err arm of every storage step reaches only failure results; OR-fold structure of reduce; flag tested on all paths to success; RAII cleanup",
        text="Decides, for every storage step and every path, that a failure sets the flag, the flag is reduced over all files, the driver turns it "
             "into Err and main into a non-zero exit; scratch files are removed by Drop.",
        ref="DESIGN.md §4 C08"),
    "C18": dict(
        technique="constant evaluation of the registered signal set at the registration site(s) + MIR path rules (poll before every file, stop ⇒ None ⇒ Err, registration before dispatch)",
        text="Decides which signals are wired to the stop flag (constants evaluated by rustc), that the flag is polled before each file, and that an "
             "observed stop can only end in a non-zero exit in both modes; files-whole and lock-covers premises are re-run from C07/C02.",
        ref="DESIGN.md §4 C18"),
}

NA_DEFAULT = "rule module not built yet (work in progress); planned rules are in DESIGN.md §4"


def main():
    props = [json.loads(l)["id"] for l in open(os.path.join(V, "properties.jsonl"))]
    checks = []
    na = []
    for pid in props:
        have = os.path.exists(os.path.join(V, "sa", "rules", pid.lower() + ".py"))
        if pid in P and have:
            e = P[pid]
            checks.append({
                "property_id": pid,
                "quick_cmd": "./check %s quick" % pid,
                "thorough_cmd": "./check %s thorough" % pid,
                "evidence_file": "evidence/%s.json" % pid,
                "replay_cmd_template": "cat {path}",
                "engine": "mirfacts+sa",
                "level_claimed": {"category": "other", "text": e["text"], "design_ref": e["ref"]},
                "level_note": (e.get("note", "") + " " + TRUST).strip(),
                "technique": e["technique"],
            })
        else:
            na.append({"property_id": pid, "reason": P.get(pid, {}).get("na", NA_DEFAULT)})
    m = {
        "version": 1,
        "setup_cmd": "./setup.sh",
        "hooks": {
            "guard": "breadlog_verif",
            "enable": "none: the static analysis reads the unmodified crate through a RUSTC_WORKSPACE_WRAPPER; /repo contains no hooks",
            "baseline_off_cmd": "cd /repo && cargo test --workspace --no-fail-fast --offline",
            "source_commits": [],
            "add_only": True,
        },
        "engines": [
            {"name": "mirfacts", "path": "tools/mirfacts", "kind_free_text": "rustc_private driver (nightly): exports mir_built of every body, evaluated constants and the monomorphic call graph as JSON", "serves_properties": props},
            {"name": "sa", "path": "sa", "kind_free_text": "Python rule engine: CFG/dominators/variant-tracking path exploration, provenance, call-graph reachability, per-property rules", "serves_properties": props},
            {"name": "grammarfacts", "path": "tools/stable", "kind_free_text": "pest_meta AST of rust_grammar.pest as JSON; grammar attributes (nullable, FIRST, vocab, produces) computed in sa/grammar.py", "serves_properties": ["C06", "C09", "C10", "C11", "C13", "C17"]},
            {"name": "rxtool", "path": "tools/stable", "kind_free_text": "regex language decisions (DFA product over regex-automata dense DFAs built with the program's regex-syntax version)", "serves_properties": ["C06", "C09", "C12", "C14"]},
        ],
        "checks": checks,
        "notes": "Static analysis only: no check runs breadlog, its tests or its parser. Known findings: known_findings.json. Seeded variants: seeded/.",
        "not_applicable": na,
    }
    json.dump(m, open(os.path.join(V, "MANIFEST.json"), "w"), indent=1)
    print("MANIFEST: %d checks, %d not_applicable" % (len(checks), len(na)))


if __name__ == "__main__":
    main()
