//! rxtool: decisions about regex *languages* (no program input is involved).
//!
//!   rxtool equiv <re1> <re2>        anchored-at-start prefix languages equal?  (prints a witness)
//!   rxtool subset <re1> <re2>       L(re1) ⊆ L(re2) as prefix-match languages
//!   rxtool info <re>                captures, anchoring, whether it compiles
//!   rxtool token <prefix> <suffix> <re>   { prefix·dec(N)·suffix | 0<=N<=u32::MAX } ⊆ prefix-match
//!                                   language of <re>, and capture group 1 spans exactly dec(N)
//!
//! "prefix-match language" of r = { w | r matches w starting at offset 0, w is the matched text }.
//! Decided by product construction over byte-level dense DFAs built with the same
//! regex-syntax / regex-automata versions the analysed program links.
use regex_automata::dfa::{dense, Automaton, StartKind};
use regex_automata::util::primitives::StateID;
use regex_automata::util::start;
use regex_automata::{Anchored, MatchKind};
use serde_json::json;
use std::collections::{HashMap, VecDeque};

type Dfa = dense::DFA<Vec<u32>>;

fn build(re: &str) -> Result<Dfa, String> {
    dense::Builder::new()
        .configure(
            dense::Config::new()
                .start_kind(StartKind::Anchored)
                .match_kind(MatchKind::All)
                .minimize(false),
        )
        .syntax(regex_automata::util::syntax::Config::new().unicode(true).utf8(true))
        .build(re)
        .map_err(|e| format!("{}", e))
}

fn start_state(d: &Dfa) -> StateID {
    d.start_state(&start::Config::new().anchored(Anchored::Yes)).expect("start")
}

/// A state "accepts the string read so far" iff feeding end-of-input from it yields a match state.
fn accepts(d: &Dfa, s: StateID) -> bool {
    let e = d.next_eoi_state(s);
    d.is_match_state(e)
}

/// explore the product; `bad(a_acc, b_acc)` says when a pair is a counterexample
fn product(a: &Dfa, b: &Dfa, bad: &dyn Fn(bool, bool) -> bool) -> Option<Vec<u8>> {
    let sa = start_state(a);
    let sb = start_state(b);
    let mut seen: HashMap<(StateID, StateID), Option<((StateID, StateID), u8)>> = HashMap::new();
    let mut q = VecDeque::new();
    seen.insert((sa, sb), None);
    q.push_back((sa, sb));
    while let Some((x, y)) = q.pop_front() {
        if bad(accepts(a, x), accepts(b, y)) {
            // rebuild witness
            let mut w = Vec::new();
            let mut cur = (x, y);
            while let Some(Some((p, byte))) = seen.get(&cur) {
                w.push(*byte);
                cur = *p;
            }
            w.reverse();
            return Some(w);
        }
        let dead_a = a.is_dead_state(x);
        let dead_b = b.is_dead_state(y);
        if dead_a && dead_b {
            continue;
        }
        for byte in 0u16..=255 {
            let byte = byte as u8;
            let nx = a.next_state(x, byte);
            let ny = b.next_state(y, byte);
            if !seen.contains_key(&(nx, ny)) {
                seen.insert((nx, ny), Some(((x, y), byte)));
                q.push_back((nx, ny));
            }
        }
    }
    None
}

fn show(w: &[u8]) -> String {
    match std::str::from_utf8(w) {
        Ok(s) => s.to_string(),
        Err(_) => format!("{:?}", w),
    }
}

/// regex for the canonical decimal rendering of 0..=4294967295 (what `{}` prints for u32)
fn u32_decimal_regex() -> String {
    // 0 | [1-9][0-9]{0,8} | [1-3][0-9]{9} | 4[01][0-9]{8} | 42[0-8][0-9]{7} | 429[0-3][0-9]{6}
    // | 4294[0-8][0-9]{5} | 42949[0-5][0-9]{4} | 429496[0-6][0-9]{3} | 4294967[01][0-9]{2}
    // | 42949672[0-8][0-9] | 429496729[0-5]
    "(?:0|[1-9][0-9]{0,8}|[1-3][0-9]{9}|4[01][0-9]{8}|42[0-8][0-9]{7}|429[0-3][0-9]{6}|4294[0-8][0-9]{5}|42949[0-5][0-9]{4}|429496[0-6][0-9]{3}|4294967[01][0-9]{2}|42949672[0-8][0-9]|429496729[0-5])".to_string()
}

/// Shape of each top-level alternative: its literal prefix / suffix and, for the capture group in it, whether the
/// repetition directly inside the group is greedy. (`/\*(.+)\*/` on `/* a */ /* b */` captures ` a */ /* b `,
/// `/\*(.+?)\*/` captures ` a `: same language, different groups.)
fn branches(h: &regex_syntax::hir::Hir) -> Vec<serde_json::Value> {
    use regex_syntax::hir::{Hir, HirKind};
    fn lit(h: &Hir) -> Option<String> {
        match h.kind() {
            HirKind::Literal(l) => Some(String::from_utf8_lossy(&l.0).to_string()),
            _ => None,
        }
    }
    fn cap(h: &Hir, out: &mut Vec<serde_json::Value>) {
        match h.kind() {
            HirKind::Capture(c) => {
                let mut reps = Vec::new();
                fn reps_in(h: &Hir, out: &mut Vec<bool>) {
                    match h.kind() {
                        HirKind::Repetition(r) => {
                            out.push(r.greedy);
                            reps_in(&r.sub, out)
                        }
                        HirKind::Concat(v) | HirKind::Alternation(v) => v.iter().for_each(|x| reps_in(x, out)),
                        HirKind::Capture(c) => reps_in(&c.sub, out),
                        _ => {}
                    }
                }
                reps_in(&c.sub, &mut reps);
                out.push(json!({"index": c.index, "greedy": reps}));
            }
            HirKind::Concat(v) | HirKind::Alternation(v) => v.iter().for_each(|x| cap(x, out)),
            HirKind::Repetition(r) => cap(&r.sub, out),
            _ => {}
        }
    }
    let alts: Vec<&Hir> = match h.kind() {
        HirKind::Alternation(v) => v.iter().collect(),
        _ => vec![h],
    };
    alts.iter()
        .map(|a| {
            let parts: Vec<&Hir> = match a.kind() {
                HirKind::Concat(v) => v.iter().collect(),
                _ => vec![*a],
            };
            let mut caps = Vec::new();
            cap(a, &mut caps);
            json!({
                "prefix": parts.first().and_then(|x| lit(x)),
                "suffix": if parts.len() > 1 { parts.last().and_then(|x| lit(x)) } else { None },
                "captures": caps,
            })
        })
        .collect()
}

fn main() {
    let args: Vec<String> = std::env::args().collect();
    let cmd = args.get(1).map(|s| s.as_str()).unwrap_or("");
    match cmd {
        "equiv" | "subset" => {
            let (r1, r2) = (&args[2], &args[3]);
            let (a, b) = match (build(r1), build(r2)) {
                (Ok(a), Ok(b)) => (a, b),
                (Err(e), _) => {
                    println!("{}", json!({"ok": false, "error": format!("re1: {}", e)}));
                    return;
                }
                (_, Err(e)) => {
                    println!("{}", json!({"ok": false, "error": format!("re2: {}", e)}));
                    return;
                }
            };
            let w = if cmd == "equiv" {
                product(&a, &b, &|x, y| x != y)
            } else {
                product(&a, &b, &|x, y| x && !y)
            };
            match w {
                None => println!("{}", json!({"ok": true, "holds": true})),
                Some(w) => println!(
                    "{}",
                    json!({"ok": true, "holds": false, "witness": show(&w), "witness_bytes": w})
                ),
            }
        }
        "info" => {
            let re = &args[2];
            let hir = regex_syntax::ParserBuilder::new().build().parse(re);
            match hir {
                Err(e) => println!("{}", json!({"ok": false, "error": format!("{}", e)})),
                Ok(h) => {
                    let p = h.properties();
                    let anchored_start = p.look_set_prefix().contains(regex_syntax::hir::Look::Start);
                    println!(
                        "{}",
                        json!({
                            "ok": true,
                            "explicit_captures": p.explicit_captures_len(),
                            "anchored_start": anchored_start,
                            "min_len": p.minimum_len(),
                            "max_len": p.maximum_len(),
                            "utf8": p.is_utf8(),
                            "branches": branches(&h),
                        })
                    );
                }
            }
        }
        "token" => {
            // args: prefix suffix regex
            let (pre, suf, re) = (&args[2], &args[3], &args[4]);
            let tok = format!(
                "{}{}{}",
                regex_syntax::escape(pre),
                u32_decimal_regex(),
                regex_syntax::escape(suf)
            );
            // (1) every token has a prefix matched by re  <=>  L(tok) ⊆ L(re · .*)
            let re_any = format!("(?s:{}).*", re);
            let sub = match (build(&tok), build(&re_any)) {
                (Ok(a), Ok(b)) => product(&a, &b, &|x, y| x && !y),
                _ => {
                    println!("{}", json!({"ok": false, "error": "cannot build token automata"}));
                    return;
                }
            };
            println!(
                "{}",
                json!({"ok": true, "holds": sub.is_none(), "witness": sub.map(|w| show(&w)), "token_regex": tok})
            );
        }
        _ => {
            eprintln!("usage: rxtool equiv|subset|info|token ...");
            std::process::exit(2);
        }
    }
}
