//! grammarfacts <file.pest> : pest grammar -> JSON AST, using pest's own meta parser (the
//! same pest_meta version the analysed crate's pest_derive uses). No input is ever matched
//! against the grammar.
use pest_meta::ast::{Expr, RuleType};
use pest_meta::parser::{self, Rule};
use serde_json::{json, Value};

fn ex(e: &Expr) -> Value {
    match e {
        Expr::Str(s) => json!({"k":"str","v":s}),
        Expr::Insens(s) => json!({"k":"insens","v":s}),
        Expr::Range(a, b) => json!({"k":"range","a":a,"b":b}),
        Expr::Ident(s) => json!({"k":"ident","v":s}),
        Expr::PeekSlice(a, b) => json!({"k":"peekslice","a":a,"b":b}),
        Expr::PosPred(x) => json!({"k":"pos","e":ex(x)}),
        Expr::NegPred(x) => json!({"k":"neg","e":ex(x)}),
        Expr::Seq(a, b) => json!({"k":"seq","a":ex(a),"b":ex(b)}),
        Expr::Choice(a, b) => json!({"k":"choice","a":ex(a),"b":ex(b)}),
        Expr::Opt(x) => json!({"k":"opt","e":ex(x)}),
        Expr::Rep(x) => json!({"k":"rep","e":ex(x)}),
        Expr::RepOnce(x) => json!({"k":"rep1","e":ex(x)}),
        Expr::RepExact(x, n) => json!({"k":"repn","e":ex(x),"min":n,"max":n}),
        Expr::RepMin(x, n) => json!({"k":"repn","e":ex(x),"min":n,"max":Value::Null}),
        Expr::RepMax(x, n) => json!({"k":"repn","e":ex(x),"min":0,"max":n}),
        Expr::RepMinMax(x, a, b) => json!({"k":"repn","e":ex(x),"min":a,"max":b}),
        Expr::Skip(v) => json!({"k":"skip","v":v}),
        Expr::Push(x) => json!({"k":"push","e":ex(x)}),
        #[allow(unreachable_patterns)]
        _ => json!({"k":"other","text":format!("{:?}", e)}),
    }
}

fn main() {
    let path = std::env::args().nth(1).expect("usage: grammarfacts <file.pest>");
    let src = std::fs::read_to_string(&path).expect("cannot read grammar");
    let pairs = match parser::parse(Rule::grammar_rules, &src) {
        Ok(p) => p,
        Err(e) => {
            eprintln!("grammar does not parse: {}", e);
            std::process::exit(3);
        }
    };
    let rules = match parser::consume_rules(pairs) {
        Ok(r) => r,
        Err(e) => {
            eprintln!("grammar invalid: {:?}", e);
            std::process::exit(3);
        }
    };
    let mut out = Vec::new();
    for r in &rules {
        let ty = match r.ty {
            RuleType::Normal => "normal",
            RuleType::Silent => "silent",
            RuleType::Atomic => "atomic",
            RuleType::CompoundAtomic => "compound_atomic",
            RuleType::NonAtomic => "non_atomic",
        };
        out.push(json!({"name": r.name, "ty": ty, "expr": ex(&r.expr)}));
    }
    println!("{}", serde_json::to_string(&json!({"file": path, "rules": out})).unwrap());
}
