//! Minimal JSON tree + writer (the driver has no Cargo dependencies).

use std::fmt::Write;

#[derive(Clone, Debug)]
pub enum J {
    Null,
    Bool(bool),
    Int(i128),
    Str(String),
    Arr(Vec<J>),
    Obj(Vec<(String, J)>),
}

impl J {
    pub fn obj() -> J {
        J::Obj(Vec::new())
    }
    pub fn set(mut self, k: &str, v: J) -> J {
        if let J::Obj(ref mut m) = self {
            m.push((k.to_string(), v));
        }
        self
    }
    pub fn put(&mut self, k: &str, v: J) {
        if let J::Obj(ref mut m) = self {
            m.push((k.to_string(), v));
        }
    }
    pub fn s<S: Into<String>>(s: S) -> J {
        J::Str(s.into())
    }
    pub fn opt_s(s: Option<String>) -> J {
        match s {
            Some(s) => J::Str(s),
            None => J::Null,
        }
    }
    pub fn write(&self, out: &mut String) {
        match self {
            J::Null => out.push_str("null"),
            J::Bool(b) => out.push_str(if *b { "true" } else { "false" }),
            J::Int(i) => {
                let _ = write!(out, "{}", i);
            }
            J::Str(s) => write_str(s, out),
            J::Arr(a) => {
                out.push('[');
                for (i, x) in a.iter().enumerate() {
                    if i > 0 {
                        out.push(',');
                    }
                    x.write(out);
                }
                out.push(']');
            }
            J::Obj(m) => {
                out.push('{');
                for (i, (k, v)) in m.iter().enumerate() {
                    if i > 0 {
                        out.push(',');
                    }
                    write_str(k, out);
                    out.push(':');
                    v.write(out);
                }
                out.push('}');
            }
        }
    }
}

fn write_str(s: &str, out: &mut String) {
    out.push('"');
    for c in s.chars() {
        match c {
            '"' => out.push_str("\\\""),
            '\\' => out.push_str("\\\\"),
            '\n' => out.push_str("\\n"),
            '\r' => out.push_str("\\r"),
            '\t' => out.push_str("\\t"),
            c if (c as u32) < 0x20 => {
                let _ = write!(out, "\\u{:04x}", c as u32);
            }
            c => out.push(c),
        }
    }
    out.push('"');
}
