//! mirfacts — rustc_private driver that exports MIR facts of the primary package as JSON.
//!
//! Used as RUSTC_WORKSPACE_WRAPPER under `cargo +nightly check`. For every crate target of
//! the primary package it writes `$MIRFACTS_OUT/<crate>-<bin|lib>.json` (one write per
//! process) with: every body's `mir_built` (blocks, statements, terminators, constants
//! evaluated), ADT field names, local trait impls, and the call graph from `main`
//! (monomorphic where generic arguments are concrete).
#![feature(rustc_private)]
#![allow(clippy::all)]

extern crate rustc_abi;
extern crate rustc_data_structures;
extern crate rustc_driver;
extern crate rustc_hir;
extern crate rustc_interface;
extern crate rustc_middle;
extern crate rustc_span;

mod json;
use json::J;

use rustc_driver::{Callbacks, Compilation};
use rustc_hir::def::DefKind;
use rustc_hir::def_id::{DefId, LocalDefId};
use rustc_interface::interface::Compiler;
use rustc_middle::mir::{
    self, AggregateKind, BasicBlock, Body, Const, ConstValue, Operand, Place, ProjectionElem,
    Rvalue, StatementKind, TerminatorKind, UnwindAction, VarDebugInfoContents,
};
use rustc_middle::ty::{self, EarlyBinder, GenericArgsRef, Instance, Ty, TyCtxt, TypingEnv};
use rustc_span::Span;
use std::collections::{BTreeMap, HashMap, HashSet, VecDeque};

struct Cb;

impl Callbacks for Cb {
    fn after_expansion<'tcx>(&mut self, _c: &Compiler, tcx: TyCtxt<'tcx>) -> Compilation {
        if std::env::var("CARGO_PRIMARY_PACKAGE").is_ok() || std::env::var("MIRFACTS_FORCE").is_ok()
        {
            export(tcx);
        }
        Compilation::Continue
    }
}

fn main() {
    let mut args: Vec<String> = std::env::args().collect();
    // As RUSTC_WORKSPACE_WRAPPER argv[1] is the path of the real rustc.
    if args.len() > 1 && (args[1].ends_with("rustc") || args[1].contains("/rustc")) {
        args.remove(1);
    }
    rustc_driver::run_compiler(&args, &mut Cb);
}

struct Cx<'tcx> {
    tcx: TyCtxt<'tcx>,
    bodies: HashMap<LocalDefId, Body<'tcx>>,
    uid: HashMap<DefId, String>,
}

impl<'tcx> Cx<'tcx> {
    /// def path, made unique among body owners (tracing/serde emit same-named items)
    fn id(&self, d: DefId) -> String {
        match self.uid.get(&d) {
            Some(s) => s.clone(),
            None => self.tcx.def_path_str(d),
        }
    }
}

fn loc(tcx: TyCtxt<'_>, span: Span) -> (String, usize) {
    let sp = span.source_callsite();
    let sm = tcx.sess.source_map();
    let p = sm.lookup_char_pos(sp.lo());
    let name = format!("{}", p.file.name.prefer_local_unconditionally());
    (name, p.line)
}

fn expn_name(span: Span) -> Option<String> {
    if !span.from_expansion() {
        return None;
    }
    let mut names = Vec::new();
    for e in span.macro_backtrace() {
        names.push(format!("{}", e.kind.descr()));
    }
    Some(names.join("<"))
}

fn export<'tcx>(tcx: TyCtxt<'tcx>) {
    let out_dir = match std::env::var("MIRFACTS_OUT") {
        Ok(d) => d,
        Err(_) => return,
    };
    let crate_name = tcx.crate_name(rustc_hir::def_id::LOCAL_CRATE).to_string();
    let is_bin = tcx.entry_fn(()).is_some();

    // 1. clone every body first (later queries may steal mir_built)
    let mut cx = Cx { tcx, bodies: HashMap::new(), uid: HashMap::new() };
    let owners: Vec<LocalDefId> = tcx.hir_body_owners().collect();
    for did in &owners {
        let body = tcx.mir_built(*did).borrow().clone();
        cx.bodies.insert(*did, body);
    }
    {
        let mut by_name: BTreeMap<String, Vec<LocalDefId>> = BTreeMap::new();
        for did in &owners {
            by_name.entry(tcx.def_path_str(did.to_def_id())).or_default().push(*did);
        }
        for (name, mut v) in by_name {
            if v.len() > 1 {
                v.sort_by_key(|d| d.local_def_index.as_usize());
                for (i, d) in v.iter().enumerate() {
                    cx.uid.insert(d.to_def_id(), format!("{}#{}", name, i));
                }
            }
        }
    }

    let mut root = J::obj();
    root.put("crate", J::s(crate_name.clone()));
    root.put("kind", J::s(if is_bin { "bin" } else { "lib" }));
    root.put(
        "overflow_checks",
        J::Bool(tcx.sess.overflow_checks()),
    );

    // 2. bodies
    let mut jbodies = Vec::new();
    let mut owners_sorted = owners.clone();
    owners_sorted.sort_by_key(|d| tcx.def_path_str(d.to_def_id()));
    for did in &owners_sorted {
        jbodies.push(export_body(&cx, *did));
    }
    root.put("bodies", J::Arr(jbodies));

    // 3. ADTs
    root.put("adts", export_adts(tcx));

    // 4. local trait impl methods
    root.put("impls", export_impls(tcx, &owners_sorted));

    // 5. call graph
    root.put("callgraph", export_callgraph(&cx));

    let mut s = String::new();
    root.write(&mut s);
    let path = format!("{}/{}-{}.json", out_dir, crate_name, if is_bin { "bin" } else { "lib" });
    let tmp = format!("{}.tmp{}", path, std::process::id());
    std::fs::write(&tmp, s).expect("mirfacts: cannot write facts");
    std::fs::rename(&tmp, &path).expect("mirfacts: cannot move facts");
}

fn body_kind(tcx: TyCtxt<'_>, did: DefId) -> String {
    let k = tcx.def_kind(did);
    match k {
        DefKind::Closure => {
            if let Some(ck) = tcx.coroutine_kind(did) {
                format!("coroutine:{:?}", ck)
            } else {
                "closure".to_string()
            }
        }
        _ => format!("{:?}", k),
    }
}

fn export_adts(tcx: TyCtxt<'_>) -> J {
    let mut out = Vec::new();
    for id in tcx.hir_crate_items(()).definitions() {
        let did = id.to_def_id();
        match tcx.def_kind(did) {
            DefKind::Struct | DefKind::Enum | DefKind::Union => {}
            _ => continue,
        }
        let adt = tcx.adt_def(did);
        let mut variants = Vec::new();
        for v in adt.variants() {
            let fields: Vec<J> = v
                .fields
                .iter()
                .map(|f| {
                    J::obj().set("name", J::s(f.name.to_string())).set(
                        "ty",
                        J::s(format!("{}", tcx.type_of(f.did).instantiate_identity().skip_norm_wip())),
                    )
                })
                .collect();
            variants.push(J::obj().set("name", J::s(v.name.to_string())).set("fields", J::Arr(fields)));
        }
        let dtor = tcx.adt_destructor(did).map(|d| tcx.def_path_str(d.did));
        out.push(
            J::obj()
                .set("path", J::s(tcx.def_path_str(did)))
                .set("variants", J::Arr(variants))
                .set("destructor", J::opt_s(dtor)),
        );
    }
    J::Arr(out)
}

fn export_impls(tcx: TyCtxt<'_>, owners: &[LocalDefId]) -> J {
    let mut out = Vec::new();
    for did in owners {
        let d = did.to_def_id();
        if tcx.def_kind(d) != DefKind::AssocFn {
            continue;
        }
        let Some(imp) = tcx.impl_of_assoc(d) else { continue };
        let self_ty = tcx.type_of(imp).instantiate_identity().skip_norm_wip();
        let trait_ref = if tcx.impl_opt_trait_ref(imp).is_some() {
            let tr = tcx.impl_trait_ref(imp).instantiate_identity().skip_norm_wip();
            Some(tcx.def_path_str(tr.def_id))
        } else {
            None
        };
        out.push(
            J::obj()
                .set("fn", J::s(tcx.def_path_str(d)))
                .set("self_ty", J::s(format!("{}", self_ty)))
                .set("trait", J::opt_s(trait_ref)),
        );
    }
    J::Arr(out)
}

fn jplace<'tcx>(cx: &Cx<'tcx>, body: &Body<'tcx>, p: &Place<'tcx>) -> J {
    let tcx = cx.tcx;
    let mut projs = Vec::new();
    for (base, elem) in p.iter_projections() {
        match elem {
            ProjectionElem::Deref => projs.push(J::s("*")),
            ProjectionElem::Field(f, fty) => {
                let pty = base.ty(&body.local_decls, tcx);
                let mut name: Option<String> = None;
                match pty.ty.kind() {
                    ty::Adt(adt, _) => {
                        let vi = pty.variant_index.unwrap_or(rustc_abi::FIRST_VARIANT);
                        if adt.is_enum() || adt.is_struct() || adt.is_union() {
                            if let Some(v) = adt.variants().get(vi) {
                                if let Some(fd) = v.fields.get(f) {
                                    name = Some(fd.name.to_string());
                                }
                            }
                        }
                    }
                    _ => {}
                }
                let mut o = J::obj().set("f", J::Int(f.as_usize() as i128)).set("ty", J::s(format!("{}", fty)));
                if let Some(n) = name {
                    o.put("n", J::s(n));
                }
                projs.push(o);
            }
            ProjectionElem::Index(l) => projs.push(J::obj().set("idx", J::Int(l.as_usize() as i128))),
            ProjectionElem::ConstantIndex { offset, from_end, .. } => projs.push(
                J::obj().set("cidx", J::Int(offset as i128)).set("from_end", J::Bool(from_end)),
            ),
            ProjectionElem::Subslice { from, to, from_end } => projs.push(
                J::obj()
                    .set("sub_from", J::Int(from as i128))
                    .set("sub_to", J::Int(to as i128))
                    .set("from_end", J::Bool(from_end)),
            ),
            ProjectionElem::Downcast(name, vi) => projs.push(
                J::obj()
                    .set("downcast", J::Int(vi.as_usize() as i128))
                    .set("n", J::opt_s(name.map(|s| s.to_string()))),
            ),
            ProjectionElem::OpaqueCast(_) => projs.push(J::s("opaque")),
            ProjectionElem::UnwrapUnsafeBinder(_) => projs.push(J::s("unwrap_binder")),
        }
    }
    J::obj().set("l", J::Int(p.local.as_usize() as i128)).set("p", J::Arr(projs))
}

fn jconst<'tcx>(cx: &Cx<'tcx>, owner: DefId, c: &mir::ConstOperand<'tcx>) -> J {
    let tcx = cx.tcx;
    let ty = c.const_.ty();
    let mut o = J::obj().set("ty", J::s(format!("{}", ty)));
    o.put("text", J::s(format!("{}", c.const_)));
    match ty.kind() {
        ty::FnDef(did, args) => {
            o.put("fn", J::s(tcx.def_path_str(*did)));
            o.put("fn_full", J::s(tcx.def_path_str_with_args(*did, args)));
            o.put("krate", J::s(tcx.crate_name(did.krate).to_string()));
            return o;
        }
        _ => {}
    }
    if let Const::Unevaluated(uv, _) = c.const_ {
        o.put("unevaluated", J::s(tcx.def_path_str(uv.def)));
        if uv.promoted.is_some() {
            o.put("promoted", J::Bool(true));
            return o;
        }
    }
    let env = TypingEnv::post_analysis(tcx, owner);
    // never evaluate generic-dependent constants
    let still_generic = {
        use rustc_middle::ty::TypeVisitableExt;
        c.const_.has_non_region_param()
    };
    if still_generic {
        return o;
    }
    let is_intlike = ty.is_integral() || ty.is_bool() || ty.is_char();
    if is_intlike {
        if let Some(si) = c.const_.try_eval_scalar_int(tcx, env) {
            let size = si.size();
            let bits = si.to_bits(size);
            let v: i128 = if ty.is_signed() {
                size.sign_extend(bits) as i128
            } else {
                bits as i128
            };
            o.put("int", J::Int(v));
        }
        return o;
    }
    // &str / &[u8] / &[u8; N]
    let is_strlike = match ty.kind() {
        ty::Ref(_, inner, _) => match inner.kind() {
            ty::Str => true,
            ty::Slice(t) => *t == tcx.types.u8,
            _ => false,
        },
        _ => false,
    };
    if is_strlike {
        if let Ok(v) = c.const_.eval(tcx, env, c.span) {
            match v {
                ConstValue::Slice { .. } | ConstValue::Indirect { .. } => {
                    if let Some(bytes) = v.try_get_slice_bytes_for_diagnostics(tcx) {
                        match std::str::from_utf8(bytes) {
                            Ok(s) if matches!(ty.kind(), ty::Ref(_, i, _) if i.is_str()) => {
                                o.put("str", J::s(s.to_string()))
                            }
                            _ => o.put(
                                "bytes",
                                J::Arr(bytes.iter().map(|b| J::Int(*b as i128)).collect()),
                            ),
                        }
                    }
                }
                _ => {}
            }
        }
    }
    o
}

fn jop<'tcx>(cx: &Cx<'tcx>, owner: DefId, body: &Body<'tcx>, op: &Operand<'tcx>) -> J {
    match op {
        Operand::Copy(p) => J::obj().set("copy", jplace(cx, body, p)),
        Operand::Move(p) => J::obj().set("move", jplace(cx, body, p)),
        Operand::Constant(c) => J::obj().set("const", jconst(cx, owner, c)),
        #[allow(unreachable_patterns)]
        _ => J::obj().set("other", J::s(format!("{:?}", op))),
    }
}

fn jrvalue<'tcx>(cx: &Cx<'tcx>, owner: DefId, body: &Body<'tcx>, rv: &Rvalue<'tcx>) -> J {
    let tcx = cx.tcx;
    match rv {
        Rvalue::Use(op, ..) => J::obj().set("k", J::s("use")).set("op", jop(cx, owner, body, op)),
        Rvalue::Ref(_, bk, p) => J::obj()
            .set("k", J::s("ref"))
            .set("mut", J::Bool(matches!(bk, mir::BorrowKind::Mut { .. })))
            .set("place", jplace(cx, body, p)),
        Rvalue::RawPtr(_, p) => J::obj().set("k", J::s("rawptr")).set("place", jplace(cx, body, p)),
        Rvalue::CopyForDeref(p) => J::obj()
            .set("k", J::s("use"))
            .set("op", J::obj().set("copy", jplace(cx, body, p))),
        Rvalue::Cast(kind, op, ty) => J::obj()
            .set("k", J::s("cast"))
            .set("kind", J::s(format!("{:?}", kind)))
            .set("op", jop(cx, owner, body, op))
            .set("ty", J::s(format!("{}", ty))),
        Rvalue::BinaryOp(bop, ab) => J::obj()
            .set("k", J::s("bin"))
            .set("op", J::s(format!("{:?}", bop)))
            .set("a", jop(cx, owner, body, &ab.0))
            .set("b", jop(cx, owner, body, &ab.1))
            .set("ty", J::s(format!("{}", ab.0.ty(&body.local_decls, tcx)))),
        Rvalue::UnaryOp(uop, a) => J::obj()
            .set("k", J::s("un"))
            .set("op", J::s(format!("{:?}", uop)))
            .set("a", jop(cx, owner, body, a)),
        Rvalue::Discriminant(p) => J::obj().set("k", J::s("discr")).set("place", jplace(cx, body, p)),
        Rvalue::Repeat(op, _) => J::obj().set("k", J::s("repeat")).set("op", jop(cx, owner, body, op)),
        Rvalue::Aggregate(kind, ops) => {
            let mut o = J::obj().set("k", J::s("agg"));
            match &**kind {
                AggregateKind::Array(t) => {
                    o.put("agg", J::s("array"));
                    o.put("ty", J::s(format!("{}", t)));
                }
                AggregateKind::Tuple => o.put("agg", J::s("tuple")),
                AggregateKind::Adt(did, vi, _args, _, active) => {
                    o.put("agg", J::s("adt"));
                    o.put("adt", J::s(tcx.def_path_str(*did)));
                    let adt = tcx.adt_def(*did);
                    let v = adt.variant(*vi);
                    o.put("variant", J::s(v.name.to_string()));
                    o.put("variant_idx", J::Int(vi.as_usize() as i128));
                    let names: Vec<J> = match active {
                        Some(f) => vec![J::s(v.fields[*f].name.to_string())],
                        None => v.fields.iter().map(|f| J::s(f.name.to_string())).collect(),
                    };
                    o.put("fields", J::Arr(names));
                }
                AggregateKind::Closure(did, _) => {
                    o.put("agg", J::s("closure"));
                    o.put("def", J::s(cx.id(*did)));
                }
                AggregateKind::Coroutine(did, _) => {
                    o.put("agg", J::s("coroutine"));
                    o.put("def", J::s(cx.id(*did)));
                }
                AggregateKind::CoroutineClosure(did, _) => {
                    o.put("agg", J::s("coroutine_closure"));
                    o.put("def", J::s(tcx.def_path_str(*did)));
                }
                AggregateKind::RawPtr(..) => o.put("agg", J::s("rawptr")),
            }
            o.put("ops", J::Arr(ops.iter().map(|x| jop(cx, owner, body, x)).collect()));
            o
        }
        _ => J::obj().set("k", J::s("other")).set("text", J::s(format!("{:?}", rv))),
    }
}

fn unwind_target(u: &UnwindAction) -> J {
    match u {
        UnwindAction::Cleanup(bb) => J::Int(bb.as_usize() as i128),
        _ => J::Null,
    }
}

fn bbj(bb: BasicBlock) -> J {
    J::Int(bb.as_usize() as i128)
}

fn export_body<'tcx>(cx: &Cx<'tcx>, ldid: LocalDefId) -> J {
    let tcx = cx.tcx;
    let did = ldid.to_def_id();
    let body = &cx.bodies[&ldid];
    let mut o = J::obj();
    o.put("id", J::s(cx.id(did)));
    o.put("kind", J::s(body_kind(tcx, did)));
    let root = tcx.typeck_root_def_id(did);
    o.put("root", J::s(cx.id(root)));
    if let Some(parent) = tcx.opt_parent(did) {
        o.put("parent", J::s(cx.id(parent)));
    }
    let (file, line) = loc(tcx, body.span);
    o.put("file", J::s(file));
    o.put("line", J::Int(line as i128));
    o.put("from_expansion", J::opt_s(expn_name(body.span)));
    o.put("arg_count", J::Int(body.arg_count as i128));
    if matches!(tcx.def_kind(did), DefKind::Fn | DefKind::AssocFn) {
        o.put("vis_public", J::Bool(tcx.visibility(did).is_public()));
    }
    // attributes of interest: is this test code? (cfg(test) code is not compiled in check)
    // locals
    let mut names: BTreeMap<usize, String> = BTreeMap::new();
    let mut upvar_names: Vec<J> = Vec::new();
    for vdi in &body.var_debug_info {
        if let VarDebugInfoContents::Place(p) = &vdi.value {
            if p.projection.is_empty() {
                names.entry(p.local.as_usize()).or_insert(vdi.name.to_string());
            } else {
                upvar_names.push(
                    J::obj().set("name", J::s(vdi.name.to_string())).set("place", jplace(cx, body, p)),
                );
            }
        }
    }
    let mut locals = Vec::new();
    for (l, decl) in body.local_decls.iter_enumerated() {
        let mut lo = J::obj().set("ty", J::s(format!("{}", decl.ty)));
        if let Some(n) = names.get(&l.as_usize()) {
            lo.put("name", J::s(n.clone()));
        }
        locals.push(lo);
    }
    o.put("locals", J::Arr(locals));
    o.put("upvars", J::Arr(upvar_names));

    let mut blocks = Vec::new();
    for (_bb, data) in body.basic_blocks.iter_enumerated() {
        let mut stmts = Vec::new();
        for st in &data.statements {
            let (_, line) = loc(tcx, st.source_info.span);
            match &st.kind {
                StatementKind::Assign(b) => {
                    let (place, rv) = &**b;
                    let mut so = J::obj()
                        .set("k", J::s("assign"))
                        .set("dst", jplace(cx, body, place))
                        .set("rv", jrvalue(cx, did, body, rv))
                        .set("line", J::Int(line as i128));
                    if let Some(e) = expn_name(st.source_info.span) {
                        so.put("exp", J::s(e));
                    }
                    stmts.push(so);
                }
                StatementKind::SetDiscriminant { place, variant_index } => {
                    stmts.push(
                        J::obj()
                            .set("k", J::s("setdiscr"))
                            .set("dst", jplace(cx, body, place))
                            .set("variant", J::Int(variant_index.as_usize() as i128))
                            .set("line", J::Int(line as i128)),
                    );
                }
                _ => {}
            }
        }
        let term = data.terminator();
        let (_, tline) = loc(tcx, term.source_info.span);
        let mut t = J::obj();
        t.put("line", J::Int(tline as i128));
        if let Some(e) = expn_name(term.source_info.span) {
            t.put("exp", J::s(e));
        }
        match &term.kind {
            TerminatorKind::Goto { target } => {
                t.put("k", J::s("goto"));
                t.put("target", bbj(*target));
            }
            TerminatorKind::SwitchInt { discr, targets } => {
                t.put("k", J::s("switch"));
                t.put("discr", jop(cx, did, body, discr));
                t.put("discr_ty", J::s(format!("{}", discr.ty(&body.local_decls, tcx))));
                let mut arms = Vec::new();
                for (v, bb) in targets.iter() {
                    arms.push(J::Arr(vec![J::Int(v as i128), bbj(bb)]));
                }
                t.put("arms", J::Arr(arms));
                t.put("otherwise", bbj(targets.otherwise()));
            }
            TerminatorKind::UnwindResume => t.put("k", J::s("resume")),
            TerminatorKind::UnwindTerminate(_) => t.put("k", J::s("terminate")),
            TerminatorKind::Return => t.put("k", J::s("return")),
            TerminatorKind::Unreachable => t.put("k", J::s("unreachable")),
            TerminatorKind::Drop { place, target, unwind, .. } => {
                t.put("k", J::s("drop"));
                t.put("place", jplace(cx, body, place));
                t.put("place_ty", J::s(format!("{}", place.ty(&body.local_decls, tcx).ty)));
                t.put("target", bbj(*target));
                t.put("unwind", unwind_target(unwind));
            }
            TerminatorKind::Call { func, args, destination, target, unwind, fn_span, .. } => {
                t.put("k", J::s("call"));
                let mut f = J::obj();
                if let Some((cdid, cargs)) = func.const_fn_def() {
                    f.put("def", J::s(tcx.def_path_str(cdid)));
                    f.put("full", J::s(tcx.def_path_str_with_args(cdid, cargs)));
                    f.put("krate", J::s(tcx.crate_name(cdid.krate).to_string()));
                    f.put("local", J::Bool(cdid.is_local()));
                    f.put(
                        "gargs",
                        J::Arr(cargs.iter().map(|a| J::s(format!("{}", a))).collect()),
                    );
                    if let Some(tr) = tcx.trait_of_assoc(cdid) {
                        f.put("trait", J::s(tcx.def_path_str(tr)));
                    }
                    // best-effort resolution in the (possibly generic) context of this body
                    let env = TypingEnv::post_analysis(tcx, did);
                    if let Ok(nargs) = tcx.try_normalize_erasing_regions(
                        env,
                        ty::Unnormalized::new_wip(cargs),
                    ) {
                        if let Ok(Some(inst)) = Instance::try_resolve(tcx, env, cdid, nargs) {
                            f.put("resolved", J::s(tcx.def_path_str(inst.def_id())));
                            f.put(
                                "resolved_full",
                                J::s(tcx.def_path_str_with_args(inst.def_id(), inst.args)),
                            );
                            f.put("resolved_kind", J::s(instance_kind(&inst)));
                        }
                    }
                } else {
                    f.put("indirect", jop(cx, did, body, func));
                    f.put("ty", J::s(format!("{}", func.ty(&body.local_decls, tcx))));
                }
                t.put("func", f);
                t.put("args", J::Arr(args.iter().map(|a| jop(cx, did, body, &a.node)).collect()));
                t.put("dst", jplace(cx, body, destination));
                t.put("target", target.map(bbj).unwrap_or(J::Null));
                t.put("unwind", unwind_target(unwind));
                let (_, fl) = loc(tcx, *fn_span);
                t.put("fn_line", J::Int(fl as i128));
            }
            TerminatorKind::TailCall { .. } => t.put("k", J::s("tailcall")),
            TerminatorKind::Assert { cond, expected, msg, target, unwind } => {
                t.put("k", J::s("assert"));
                t.put("cond", jop(cx, did, body, cond));
                t.put("expected", J::Bool(*expected));
                let kind = match &**msg {
                    mir::AssertKind::BoundsCheck { .. } => "BoundsCheck".to_string(),
                    mir::AssertKind::Overflow(op, ..) => format!("Overflow:{:?}", op),
                    mir::AssertKind::OverflowNeg(..) => "OverflowNeg".to_string(),
                    mir::AssertKind::DivisionByZero(..) => "DivisionByZero".to_string(),
                    mir::AssertKind::RemainderByZero(..) => "RemainderByZero".to_string(),
                    other => format!("{:?}", other).split('(').next().unwrap_or("?").to_string(),
                };
                t.put("msg", J::s(kind));
                t.put("target", bbj(*target));
                t.put("unwind", unwind_target(unwind));
            }
            TerminatorKind::Yield { value, resume, drop, .. } => {
                t.put("k", J::s("yield"));
                t.put("value", jop(cx, did, body, value));
                t.put("target", bbj(*resume));
                t.put("drop", drop.map(bbj).unwrap_or(J::Null));
            }
            TerminatorKind::CoroutineDrop => t.put("k", J::s("coroutine_drop")),
            TerminatorKind::FalseEdge { real_target, imaginary_target } => {
                t.put("k", J::s("goto"));
                t.put("target", bbj(*real_target));
                t.put("false_edge", bbj(*imaginary_target));
            }
            TerminatorKind::FalseUnwind { real_target, .. } => {
                t.put("k", J::s("goto"));
                t.put("target", bbj(*real_target));
                t.put("false_unwind", J::Bool(true));
            }
            TerminatorKind::InlineAsm { .. } => t.put("k", J::s("asm")),
        }
        blocks.push(
            J::obj()
                .set("stmts", J::Arr(stmts))
                .set("term", t)
                .set("cleanup", J::Bool(data.is_cleanup)),
        );
    }
    o.put("blocks", J::Arr(blocks));
    o
}

fn instance_kind(inst: &Instance<'_>) -> String {
    let s = format!("{:?}", inst.def);
    s.split('(').next().unwrap_or("?").to_string()
}

// ---------------------------------------------------------------------------------------
// call graph

#[derive(Clone, PartialEq, Eq, Hash)]
struct Node<'tcx> {
    def: DefId,
    args: GenericArgsRef<'tcx>,
    mono: bool,
}

fn node_name<'tcx>(tcx: TyCtxt<'tcx>, n: &Node<'tcx>) -> String {
    tcx.def_path_str_with_args(n.def, n.args)
}

fn has_params<'tcx>(args: GenericArgsRef<'tcx>) -> bool {
    use rustc_middle::ty::TypeVisitableExt;
    args.has_non_region_param()
}

struct Cg<'a, 'tcx> {
    cx: &'a Cx<'tcx>,
    seen: HashSet<Node<'tcx>>,
    queue: VecDeque<Node<'tcx>>,
    nodes: Vec<J>,
    edges: Vec<J>,
    impls_by_adt: HashMap<DefId, Vec<DefId>>,
}

impl<'a, 'tcx> Cg<'a, 'tcx> {
    fn push(&mut self, n: Node<'tcx>) {
        if self.seen.insert(n.clone()) {
            self.queue.push_back(n);
        }
    }

    fn subst<T: ty::TypeFoldable<TyCtxt<'tcx>>>(&self, from: &Node<'tcx>, v: T) -> Option<T> {
        let tcx = self.cx.tcx;
        let env = if from.mono {
            TypingEnv::fully_monomorphized()
        } else {
            TypingEnv::post_analysis(tcx, from.def)
        };
        tcx.try_instantiate_and_normalize_erasing_regions(from.args, env, EarlyBinder::bind(v)).ok()
    }

    fn edge(&mut self, from: &Node<'tcx>, to: String, kind: &str, body_id: &str, bb: usize, line: usize, extra: Option<(&str, J)>) {
        let tcx = self.cx.tcx;
        let mut e = J::obj()
            .set("from", J::s(node_name(tcx, from)))
            .set("to", J::s(to))
            .set("kind", J::s(kind))
            .set("body", J::s(body_id))
            .set("bb", J::Int(bb as i128))
            .set("line", J::Int(line as i128));
        if let Some((k, v)) = extra {
            e.put(k, v);
        }
        self.edges.push(e);
    }

    /// Visit local ADT types mentioned in a type (for drop glue and for trait impls that
    /// external generic code may call back).
    fn local_adts_in(&self, t: Ty<'tcx>, out: &mut Vec<(DefId, GenericArgsRef<'tcx>)>, depth: usize, seen: &mut HashSet<Ty<'tcx>>) {
        if depth > 8 || !seen.insert(t) {
            return;
        }
        let tcx = self.cx.tcx;
        match t.kind() {
            ty::Adt(adt, args) => {
                out.push((adt.did(), args));
                for a in args.iter() {
                    if let Some(t2) = a.as_type() {
                        self.local_adts_in(t2, out, depth + 1, seen);
                    }
                }
                if adt.did().is_local() {
                    for v in adt.variants() {
                        for f in &v.fields {
                            let ft = f.ty(tcx, args);
                            self.local_adts_in(ft, out, depth + 1, seen);
                        }
                    }
                }
            }
            ty::Tuple(ts) => {
                for t2 in ts.iter() {
                    self.local_adts_in(t2, out, depth + 1, seen);
                }
            }
            ty::Ref(_, t2, _) | ty::Slice(t2) | ty::Array(t2, _) => {
                self.local_adts_in(*t2, out, depth + 1, seen)
            }
            ty::RawPtr(t2, _) => self.local_adts_in(*t2, out, depth + 1, seen),
            ty::Closure(_, args) => {
                for t2 in args.as_closure().upvar_tys() {
                    self.local_adts_in(t2, out, depth + 1, seen);
                }
            }
            _ => {}
        }
    }

    fn visit_call(&mut self, from: &Node<'tcx>, body_id: &str, bb: usize, line: usize, cdid: DefId, cargs: GenericArgsRef<'tcx>, kind: &str) {
        let tcx = self.cx.tcx;
        let Some(iargs) = self.subst(from, cargs) else {
            let name = tcx.def_path_str_with_args(cdid, cargs);
            self.edge(from, name, "unnormalizable", body_id, bb, line, Some(("def", J::s(tcx.def_path_str(cdid)))));
            return;
        };
        let env = if from.mono && !has_params(iargs) {
            TypingEnv::fully_monomorphized()
        } else {
            TypingEnv::post_analysis(tcx, from.def)
        };
        let is_fn = matches!(tcx.def_kind(cdid), DefKind::Fn | DefKind::AssocFn | DefKind::Ctor(..));
        let resolved = if matches!(tcx.def_kind(cdid), DefKind::Fn | DefKind::AssocFn) {
            Instance::try_resolve(tcx, env, cdid, iargs).ok().flatten()
        } else {
            None
        };
        let (tdid, targs, ikind) = match resolved {
            Some(inst) => (inst.def_id(), inst.args, instance_kind(&inst)),
            None => (cdid, iargs, if is_fn { "Unresolved".to_string() } else { "Other".to_string() }),
        };
        let name = tcx.def_path_str_with_args(tdid, targs);
        let mut extra = J::obj()
            .set("def", J::s(tcx.def_path_str(tdid)))
            .set("krate", J::s(tcx.crate_name(tdid.krate).to_string()))
            .set("ikind", J::s(ikind.clone()))
            .set("local", J::Bool(tdid.is_local()));
        if tdid != cdid {
            extra.put("declared", J::s(tcx.def_path_str(cdid)));
        }
        self.edge(from, name, kind, body_id, bb, line, Some(("callee", extra)));
        if let Some(l) = tdid.as_local() {
            if self.cx.bodies.contains_key(&l) && ikind != "Virtual" {
                let mono = from.mono && !has_params(targs);
                self.push(Node { def: tdid, args: targs, mono });
            }
        }
        // external callee: local types among its generic args may be called back through
        // their trait impls (serde, clap, Clone, ...). Conservative: all such impl methods.
        if !tdid.is_local() || ikind == "Unresolved" || ikind == "Virtual" {
            let mut adts = Vec::new();
            let mut seen = HashSet::new();
            for a in targs.iter() {
                if let Some(t) = a.as_type() {
                    self.local_adts_in(t, &mut adts, 0, &mut seen);
                }
            }
            for (adt, _) in adts {
                if !adt.is_local() {
                    continue;
                }
                if let Some(fns) = self.impls_by_adt.get(&adt).cloned() {
                    for f in fns {
                        let idargs = ty::GenericArgs::identity_for_item(tcx, f);
                        let n = Node { def: f, args: idargs, mono: !has_params(idargs) };
                        let nm = node_name(tcx, &n);
                        self.edge(from, nm, "callback_impl", body_id, bb, line, Some(("via", J::s(tcx.def_path_str(tdid)))));
                        self.push(n);
                    }
                }
            }
        }
    }

    fn visit_operand(&mut self, from: &Node<'tcx>, body_id: &str, bb: usize, line: usize, op: &Operand<'tcx>) {
        if let Some((did, args)) = op.const_fn_def() {
            self.visit_call(from, body_id, bb, line, did, args, "fnref");
        }
    }

    fn visit_node(&mut self, n: &Node<'tcx>) {
        let tcx = self.cx.tcx;
        let Some(l) = n.def.as_local() else { return };
        let Some(body) = self.cx.bodies.get(&l) else { return };
        let body_id = self.cx.id(n.def);
        self.nodes.push(
            J::obj()
                .set("name", J::s(node_name(tcx, n)))
                .set("body", J::s(body_id.clone()))
                .set("mono", J::Bool(n.mono)),
        );
        for (bb, data) in body.basic_blocks.iter_enumerated() {
            let bbi = bb.as_usize();
            for st in &data.statements {
                let (_, line) = loc(tcx, st.source_info.span);
                if let StatementKind::Assign(b) = &st.kind {
                    let (_, rv) = &**b;
                    match rv {
                        Rvalue::Aggregate(kind, ops) => {
                            match &**kind {
                                AggregateKind::Closure(did, args)
                                | AggregateKind::Coroutine(did, args)
                                | AggregateKind::CoroutineClosure(did, args) => {
                                    if let Some(iargs) = self.subst(n, *args) {
                                        let mono = n.mono && !has_params(iargs);
                                        let child = Node { def: *did, args: iargs, mono };
                                        let nm = node_name(tcx, &child);
                                        self.edge(n, nm, "closure", &body_id, bbi, line, None);
                                        self.push(child);
                                    }
                                }
                                _ => {}
                            }
                            for op in ops.iter() {
                                self.visit_operand(n, &body_id, bbi, line, op);
                            }
                        }
                        Rvalue::Use(op, ..) | Rvalue::Cast(_, op, _) | Rvalue::Repeat(op, _) | Rvalue::UnaryOp(_, op) => {
                            self.visit_operand(n, &body_id, bbi, line, op)
                        }
                        Rvalue::BinaryOp(_, ab) => {
                            self.visit_operand(n, &body_id, bbi, line, &ab.0);
                            self.visit_operand(n, &body_id, bbi, line, &ab.1);
                        }
                        _ => {}
                    }
                }
            }
            let term = data.terminator();
            let (_, line) = loc(tcx, term.source_info.span);
            match &term.kind {
                TerminatorKind::Call { func, args, .. } => {
                    if let Some((cdid, cargs)) = func.const_fn_def() {
                        self.visit_call(n, &body_id, bbi, line, cdid, cargs, "call");
                    } else {
                        let fty = func.ty(&body.local_decls, tcx);
                        self.edge(n, format!("{}", fty), "indirect", &body_id, bbi, line, None);
                    }
                    for a in args.iter() {
                        self.visit_operand(n, &body_id, bbi, line, &a.node);
                    }
                }
                TerminatorKind::Drop { place, .. } => {
                    let pty = place.ty(&body.local_decls, tcx).ty;
                    if let Some(ity) = self.subst(n, pty) {
                        let mut adts = Vec::new();
                        let mut seen = HashSet::new();
                        self.local_adts_in(ity, &mut adts, 0, &mut seen);
                        for (adt, aargs) in adts {
                            if let Some(d) = tcx.adt_destructor(adt) {
                                if d.did.is_local() {
                                    let mono = n.mono && !has_params(aargs);
                                    let child = Node { def: d.did, args: aargs, mono };
                                    let nm = node_name(tcx, &child);
                                    self.edge(n, nm, "drop", &body_id, bbi, line, None);
                                    self.push(child);
                                } else {
                                    let nm = tcx.def_path_str_with_args(d.did, aargs);
                                    self.edge(n, nm, "drop_ext", &body_id, bbi, line, Some(("callee", J::obj().set("def", J::s(tcx.def_path_str(d.did))).set("krate", J::s(tcx.crate_name(d.did.krate).to_string())).set("local", J::Bool(false)).set("ikind", J::s("Drop")))));
                                }
                            }
                        }
                    }
                }
                _ => {}
            }
        }
    }
}

fn export_callgraph<'tcx>(cx: &Cx<'tcx>) -> J {
    let tcx = cx.tcx;
    let mut cg = Cg {
        cx,
        seen: HashSet::new(),
        queue: VecDeque::new(),
        nodes: Vec::new(),
        edges: Vec::new(),
        impls_by_adt: HashMap::new(),
    };
    // trait impls of local ADTs (any trait): candidates for callbacks from external generics
    for (l, _) in cx.bodies.iter() {
        let d = l.to_def_id();
        if tcx.def_kind(d) != DefKind::AssocFn {
            continue;
        }
        let Some(imp) = tcx.impl_of_assoc(d) else { continue };
        if tcx.impl_opt_trait_ref(imp).is_none() {
            continue;
        }
        let self_ty = tcx.type_of(imp).instantiate_identity().skip_norm_wip();
        if let ty::Adt(adt, _) = self_ty.kind() {
            cg.impls_by_adt.entry(adt.did()).or_default().push(d);
        }
    }
    for v in cg.impls_by_adt.values_mut() {
        v.sort_by_key(|d| tcx.def_path_str(*d));
    }
    let mut roots = Vec::new();
    if let Some((main_did, _)) = tcx.entry_fn(()) {
        let args = ty::GenericArgs::identity_for_item(tcx, main_did);
        let n = Node { def: main_did, args, mono: true };
        roots.push(J::s(node_name(tcx, &n)));
        cg.push(n);
    } else {
        // library: every public fn is a root (generic, identity args)
        let mut pubs: Vec<DefId> = cx
            .bodies
            .keys()
            .map(|l| l.to_def_id())
            .filter(|d| matches!(tcx.def_kind(*d), DefKind::Fn | DefKind::AssocFn))
            .filter(|d| tcx.visibility(*d).is_public())
            .collect();
        pubs.sort_by_key(|d| tcx.def_path_str(*d));
        for d in pubs {
            let args = ty::GenericArgs::identity_for_item(tcx, d);
            let n = Node { def: d, args, mono: !has_params(args) };
            roots.push(J::s(node_name(tcx, &n)));
            cg.push(n);
        }
    }
    while let Some(n) = cg.queue.pop_front() {
        cg.visit_node(&n);
    }
    J::obj()
        .set("roots", J::Arr(roots))
        .set("nodes", J::Arr(cg.nodes))
        .set("edges", J::Arr(cg.edges))
}
