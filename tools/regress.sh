#!/bin/bash
# full regression of the checker: unchanged tree, seeded changes, self-validation variants, benign variants
cd "$(dirname "$0")/.."
echo "--- unchanged tree"; ./check C01 quick >/dev/null; printf '%s\n' C01 C02 C03 C04 C05 C06 C07 C08 C09 C10 C11 C12 C13 C14 C15 C16 C17 C18 | xargs -P 6 -I{} sh -c './check {} quick | grep -E "VIOLATION|instances"' | sort
echo "--- unchanged tree, thorough"; printf '%s\n' C01 C02 C03 C04 C05 C06 C07 C08 C09 C10 C11 C12 C13 C14 C15 C16 C17 C18 | xargs -P 6 -I{} sh -c './check {} thorough | grep -E "VIOLATION|WEAKNESS|instances"' | sort | grep -v " 0 violations"
echo "--- seeded"; ./tools/run_seeds.sh | grep -v ": reported by"
echo "--- variants"; for i in 0 1 2 3 4 5; do python3 tools/run_all_mutants.py --shard=$i/6 > /tmp/regress.mut.$i 2>&1 & done; wait; cat /tmp/regress.mut.? | grep -v " killed "; echo "($(cat /tmp/regress.mut.? | grep -c " killed ") killed)"; rm -f /tmp/regress.mut.?
echo "--- benign"; ./tools/run_benign.sh 2>&1 | grep -v "^=="
echo "--- done"
