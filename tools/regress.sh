#!/bin/bash
# full regression of the checker: unchanged tree, seeded changes, self-validation variants, benign variants
cd "$(dirname "$0")/.."
echo "--- unchanged tree"; for c in C01 C02 C03 C04 C05 C06 C07 C08 C09 C10 C11 C12 C13 C14 C15 C16 C17 C18; do ./check $c quick | grep -E "VIOLATION|instances"; done
echo "--- seeded"; ./tools/run_seeds.sh | grep -v ": reported by"
echo "--- variants"; python3 tools/run_all_mutants.py 2>&1 | grep -v " killed "
echo "--- benign"; ./tools/run_benign.sh 2>&1 | grep -v "^=="
echo "--- done"
