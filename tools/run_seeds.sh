#!/bin/bash
# every seeded change must be reported by the check of the property it breaks (runs ${JOBS:-6} at a time)
cd "$(dirname "$0")/.."
one() {
  d=$1; id=$(basename $d); prop=${id%%-*}
  out=$(./tools/try_patch.sh $d/patch.diff $prop 2>&1)
  if echo "$out" | grep -q "^VIOLATION property=$prop"; then
    echo "$id: reported by $prop ($(echo "$out" | grep FAILED | head -1 | sed 's/^ *rule //' | cut -c1-110))"
  else
    echo "$id: NOT REPORTED by $prop"
  fi
}
export -f one
out=$(printf '%s\n' ${SEEDS:-seeded/*/} | xargs -P ${JOBS:-6} -I{} bash -c 'one {}' | sort)
echo "$out"
echo "$out" | grep -q "NOT REPORTED" && exit 1
exit 0
