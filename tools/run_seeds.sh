#!/bin/bash
# every seeded change must be reported by the check of the property it breaks
cd "$(dirname "$0")/.."
rc=0
for d in ${SEEDS:-seeded/*/}; do
  id=$(basename $d); prop=${id%%-*}
  out=$(./tools/try_patch.sh $d/patch.diff $prop 2>&1)
  if echo "$out" | grep -q "^VIOLATION property=$prop"; then
    echo "$id: reported by $prop ($(echo "$out" | grep FAILED | head -1 | sed 's/^ *rule //' | cut -c1-110))"
  else
    echo "$id: NOT REPORTED by $prop"; rc=1
  fi
done
exit $rc
