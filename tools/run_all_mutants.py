#!/usr/bin/env python3
"""Run every self-validation mutant once and evaluate all properties that should report it."""
import os, sys, shutil, tempfile
sys.path.insert(0, os.path.dirname(os.path.dirname(os.path.abspath(__file__))))
from sa import build, selfval
from sa.mutants import MUTANTS

args = sys.argv[1:]
shard = None
if args and args[0].startswith("--shard="):
    i, n = args[0][len("--shard="):].split("/")
    shard = (int(i), int(n))
    args = args[1:]
only = set(args)
if shard:
    MUTANTS = [m for k, m in enumerate(MUTANTS) if k % shard[1] == shard[0]]
base = tempfile.mkdtemp(prefix="bl-mutall-", dir="/tmp")
scratch = os.path.join(base, "repo")
try:
    for (mid, props, path, old, new, note) in MUTANTS:
        if only and mid not in only:
            continue
        if os.path.exists(scratch):
            shutil.rmtree(scratch)
        shutil.copytree("/repo", scratch, ignore=shutil.ignore_patterns("target", ".git", "_seed"))
        fp = os.path.join(scratch, path)
        src = open(fp).read()
        if src.count(old) != 1:
            print("%-24s SKIP (anchor occurs %d times)" % (mid, src.count(old)))
            continue
        open(fp, "w").write(src.replace(old, new))
        d = build.facts_for(scratch)
        if d is None:
            print("%-24s BROKEN (does not compile)" % mid)
            continue
        for p in props:
            if not os.path.exists(os.path.join(os.path.dirname(selfval.__file__), "rules", p.lower() + ".py")):
                print("%-24s %s   (no rules yet)" % (mid, p))
                continue
            try:
                v = selfval._rules_report(p, scratch, d)
                print("%-24s %s   %s  %s" % (mid, p, "killed" if v else "SURVIVED", (v[0]["rule"] + ": " + v[0]["what"][:100]) if v else ""))
            except Exception as e:
                print("%-24s %s   CRASH %r" % (mid, p, e))
finally:
    shutil.rmtree(base, ignore_errors=True)
