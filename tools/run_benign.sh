#!/bin/bash
# run every check against every behaviour-preserving variant in benign/ ; prints only alarms (${JOBS:-6} patches at a time)
cd "$(dirname "$0")/.."
one() {
  p=$1
  D=$(mktemp -d /tmp/scr.XXXXXX)
  rsync -a --exclude target --exclude .git --exclude _seed /repo/ "$D/"
  if ! (cd "$D" && patch -p1 -s < "$OLDPWD/$p" >/dev/null 2>&1); then echo "== $p: does not apply"; rm -rf "$D"; return; fi
  out="== $p"
  for id in ${CHECKS:-C01 C02 C03 C04 C05 C06 C07 C08 C09 C10 C11 C12 C13 C14 C15 C16 C17 C18}; do
    r=$(VERIF_REPO="$D" VERIF_EVIDENCE_DIR="$D/.ev" VERIF_REPLAY_DIR="$D/.rp" python3 -m sa.run "$id" quick 2>&1 | grep -E "FAILED|checker|Traceback|Error" | sed "s|$D|<scratch>|g" | sed "s/^/   $id /" | cut -c1-260)
    [ -n "$r" ] && out="$out"$'\n'"$r"
  done
  echo "$out"
  rm -rf "$D"
}
export -f one
export CHECKS
printf '%s\n' ${PATCHES:-benign/*.diff} | xargs -P ${JOBS:-6} -I{} bash -c 'one {}'
