#!/bin/bash
# tools/verify_seed.sh <dir with patch.diff + demo.sh> <scratch git worktree of /repo>
# Confirms a seeded change against /repo's HEAD: the patch applies, the tree builds, the unedited suite passes
# (223), the demonstration exits 1 with the patch and 0 without it. Prints one summary line.
S="$(readlink -f "$1")"; W="$(readlink -f "$2")"; id=$(basename "$S")
cd "$W" || exit 2
git checkout -q -- . 2>/dev/null; git checkout -q --detach "$(git -C /repo rev-parse HEAD)" 2>/dev/null
if ! git apply --check "$S/patch.diff" 2>/dev/null; then echo "$id PATCH-DOES-NOT-APPLY"; exit 1; fi
git apply "$S/patch.diff"
if ! cargo build --offline >"$W/../$id.build.log" 2>&1; then echo "$id BUILD-FAIL"; git checkout -q -- .; exit 1; fi
cargo test --workspace --no-fail-fast --offline >"$W/../$id.test.log" 2>&1
passed=$(grep -aE "^test result" "$W/../$id.test.log" | sed -E 's/.* ([0-9]+) passed.*/\1/' | paste -sd+ | bc)
failed=$(grep -aE "^test result" "$W/../$id.test.log" | sed -E 's/.* ([0-9]+) failed.*/\1/' | paste -sd+ | bc)
timeout 1200 bash "$S/demo.sh" "$W" >"$W/../$id.demo_patched.log" 2>&1; rc1=$?
git checkout -q -- .
cargo build --offline >/dev/null 2>&1
timeout 1200 bash "$S/demo.sh" "$W" >"$W/../$id.demo_clean.log" 2>&1; rc0=$?
echo "$id head=$(git rev-parse --short HEAD) tests_passed=$passed failed=$failed demo_with_patch_rc=$rc1 demo_clean_rc=$rc0"
