#!/bin/sh
# tools/try_patch.sh <patch.diff> <property-id>...   — run checks against a scratch copy of
# /repo with the patch applied (the copy lives under /tmp and is removed afterwards).
set -u
P="$(readlink -f "$1")"; shift
D=$(mktemp -d /tmp/scr.XXXXXX)
rsync -a --exclude target --exclude .git --exclude _seed /repo/ "$D/"
if ! (cd "$D" && patch -p1 -s < "$P"); then echo "patch does not apply"; rm -rf "$D"; exit 3; fi
rc=0
for id in "$@"; do
  VERIF_REPO="$D" VERIF_EVIDENCE_DIR="$D/.ev" VERIF_REPLAY_DIR="$D/.rp" python3 -m sa.run "$id" quick | grep -E "FAILED|VIOLATION|KNOWN|instances|checker" | sed "s|$D|<scratch>|g"
done
rm -rf "$D"
